// Package vrand replaces "math/rand": every draw is a choice point of the explorer.
package vrand

import (
	"fmt"

	"verif.local/vrt"
)

// FloatGrid is the number of cells Float64 can land in (their mid-points are returned).
const FloatGrid = 20

type Source interface {
	Int63() int64
	Seed(seed int64)
}

type src struct{}

func (src) Int63() int64 { return int64(vrt.Choose(4, "rand.Int63")) }
func (src) Seed(int64)   {}

func NewSource(seed int64) Source { return src{} }

type Rand struct{}

func New(s Source) *Rand { return &Rand{} }

func Seed(int64) {}

func intn(n int64, what string) int64 {
	if n <= 0 {
		panic("invalid argument to " + what)
	}
	if n > 4096 {
		// too wide to enumerate: ends and middle
		c := vrt.Choose(3, fmt.Sprintf("%s(%d)", what, n))
		return []int64{0, n - 1, n / 2}[c]
	}
	return int64(vrt.Choose(int(n), fmt.Sprintf("%s(%d)", what, n)))
}

func shuffle(n int, swap func(i, j int)) {
	if n < 0 {
		panic("invalid argument to Shuffle")
	}
	depth := vrt.ShuffleDepth()
	// forward Fisher-Yates: position 0 is decided first
	for i := 0; i < n-1; i++ {
		if depth > 0 && i >= depth {
			break
		}
		j := i + vrt.Choose(n-i, fmt.Sprintf("rand.Shuffle[%d/%d]", i, n))
		swap(i, j)
	}
}

func perm(n int) []int {
	p := make([]int, n)
	for i := range p {
		p[i] = i
	}
	shuffle(n, func(i, j int) { p[i], p[j] = p[j], p[i] })
	return p
}

func float64v() float64 {
	c := vrt.Choose(FloatGrid, "rand.Float64")
	return (float64(c) + 0.5) / FloatGrid
}

func (r *Rand) Intn(n int) int                     { return int(intn(int64(n), "rand.Intn")) }
func (r *Rand) Int63n(n int64) int64               { return intn(n, "rand.Int63n") }
func (r *Rand) Int31n(n int32) int32               { return int32(intn(int64(n), "rand.Int31n")) }
func (r *Rand) Int() int                           { return int(intn(4, "rand.Int")) }
func (r *Rand) Int63() int64                       { return intn(4, "rand.Int63") }
func (r *Rand) Int31() int32                       { return int32(intn(4, "rand.Int31")) }
func (r *Rand) Uint32() uint32                     { return uint32(intn(4, "rand.Uint32")) }
func (r *Rand) Float64() float64                   { return float64v() }
func (r *Rand) Float32() float32                   { return float32(float64v()) }
func (r *Rand) Shuffle(n int, swap func(i, j int)) { shuffle(n, swap) }
func (r *Rand) Perm(n int) []int                   { return perm(n) }
func (r *Rand) Seed(int64)                         {}

func Intn(n int) int                     { return int(intn(int64(n), "rand.Intn")) }
func Int63n(n int64) int64               { return intn(n, "rand.Int63n") }
func Int31n(n int32) int32               { return int32(intn(int64(n), "rand.Int31n")) }
func Int() int                           { return int(intn(4, "rand.Int")) }
func Int63() int64                       { return intn(4, "rand.Int63") }
func Int31() int32                       { return int32(intn(4, "rand.Int31")) }
func Uint32() uint32                     { return uint32(intn(4, "rand.Uint32")) }
func Float64() float64                   { return float64v() }
func Float32() float32                   { return float32(float64v()) }
func Shuffle(n int, swap func(i, j int)) { shuffle(n, swap) }
func Perm(n int) []int                   { return perm(n) }
