// Package vcontext replaces "context" so that cancellation is visible to the controlled runtime.
package vcontext

import (
	"context"
	"time"

	"verif.local/vrt"
)

type (
	Context    = context.Context
	CancelFunc = context.CancelFunc
)

var (
	Canceled         = context.Canceled
	DeadlineExceeded = context.DeadlineExceeded
)

func Background() Context { return context.Background() }
func TODO() Context       { return context.TODO() }

type vctx struct {
	parent   Context
	done     chan struct{}
	err      error
	children []*vctx
	deadline time.Time
	hasDl    bool
	timer    *vrt.TimerHandle
}

func (c *vctx) Deadline() (time.Time, bool) {
	if c.hasDl {
		return c.deadline, true
	}
	return c.parent.Deadline()
}
func (c *vctx) Done() <-chan struct{} { return c.done }
func (c *vctx) Err() error            { return c.err }
func (c *vctx) Value(key any) any     { return c.parent.Value(key) }

func (c *vctx) cancel(err error) {
	if c.err != nil {
		return
	}
	c.err = err
	vrt.MarkClosed(c.done)
	close(c.done)
	if c.timer != nil {
		c.timer.Stop()
	}
	for _, ch := range c.children {
		ch.cancel(err)
	}
}

func newCtx(parent Context) *vctx {
	c := &vctx{parent: parent, done: make(chan struct{})}
	if p, ok := parent.(*vctx); ok {
		if p.err != nil {
			c.cancel(p.err)
		} else {
			p.children = append(p.children, c)
		}
	}
	return c
}

func WithCancel(parent Context) (Context, CancelFunc) {
	c := newCtx(parent)
	return c, func() { c.cancel(Canceled) }
}

func WithTimeout(parent Context, d time.Duration) (Context, CancelFunc) {
	c := newCtx(parent)
	c.hasDl = true
	c.deadline = time.Unix(0, vrt.NowNanos()).Add(d)
	c.timer = vrt.NewTimerHandle(d, func() { c.cancel(DeadlineExceeded) })
	return c, func() { c.cancel(Canceled) }
}

func WithDeadline(parent Context, t time.Time) (Context, CancelFunc) {
	return WithTimeout(parent, t.Sub(time.Unix(0, vrt.NowNanos())))
}

type valueCtx struct {
	Context
	key, val any
}

func (v *valueCtx) Value(key any) any {
	if key == v.key {
		return v.val
	}
	return v.Context.Value(key)
}

func WithValue(parent Context, key, val any) Context { return &valueCtx{parent, key, val} }
