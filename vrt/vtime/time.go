// Package vtime replaces "time": the clock is the controlled runtime's virtual clock
// and timers fire only when the runtime decides.
package vtime

import (
	"time"

	"verif.local/vrt"
)

type (
	Duration   = time.Duration
	Time       = time.Time
	Month      = time.Month
	Weekday    = time.Weekday
	Location   = time.Location
	ParseError = time.ParseError
)

const (
	Nanosecond  = time.Nanosecond
	Microsecond = time.Microsecond
	Millisecond = time.Millisecond
	Second      = time.Second
	Minute      = time.Minute
	Hour        = time.Hour

	RFC3339     = time.RFC3339
	RFC3339Nano = time.RFC3339Nano
	RFC1123     = time.RFC1123
	Kitchen     = time.Kitchen
	DateTime    = "2006-01-02 15:04:05"
	DateOnly    = "2006-01-02"
	TimeOnly    = "15:04:05"

	January = time.January
	Sunday  = time.Sunday
)

var (
	UTC   = time.UTC
	Local = time.Local
)

func Now() Time                                { return time.Unix(0, vrt.NowNanos()) }
func Unix(sec, nsec int64) Time                { return time.Unix(sec, nsec) }
func UnixMilli(ms int64) Time                  { return time.UnixMilli(ms) }
func UnixMicro(us int64) Time                  { return time.UnixMicro(us) }
func Since(t Time) Duration                    { return Now().Sub(t) }
func Until(t Time) Duration                    { return t.Sub(Now()) }
func Sleep(d Duration)                         { vrt.Sleep(d) }
func ParseDuration(s string) (Duration, error) { return time.ParseDuration(s) }
func Parse(layout, value string) (Time, error) { return time.Parse(layout, value) }
func Date(year int, month Month, day, hour, min, sec, nsec int, loc *Location) Time {
	return time.Date(year, month, day, hour, min, sec, nsec, loc)
}
func LoadLocation(name string) (*Location, error) { return time.LoadLocation(name) }
func FixedZone(name string, offset int) *Location { return time.FixedZone(name, offset) }

// Timer mirrors time.Timer with pre-1.23 channel semantics (cap 1, Stop/Reset do not drain).
type Timer struct {
	C <-chan Time
	h *vrt.TimerHandle
}

func NewTimer(d Duration) *Timer {
	h := vrt.NewTimerHandle(d, nil)
	return &Timer{C: h.C, h: h}
}

func AfterFunc(d Duration, f func()) *Timer {
	h := vrt.NewTimerHandle(d, f)
	return &Timer{h: h}
}

func After(d Duration) <-chan Time { return NewTimer(d).C }

func (t *Timer) Stop() bool            { return t.h.Stop() }
func (t *Timer) Reset(d Duration) bool { return t.h.Reset(d) }
