module verif.local/vrt

go 1.18
