package vrt

import (
	"fmt"
	"time"
)

// Exec is what a harness reports for one execution.
type Exec struct {
	Trace     []Choice
	Outcome   string // canonical observation (for distinct-outcome counting)
	Violation string // non-empty: oracle clause violated
	Detail    string
	Fatal     string // harness error (nondeterminism etc.)
}

// Explorer is the stateless, deviation-bounded depth-first search over choice sequences.
type Explorer struct {
	Run             func(prefix []int) *Exec
	Bound           int  // deviations allowed
	Chess           bool // only preemptions (and 'e' choices) cost; switches at blocking points are free
	Deadline        time.Time
	MaxExec         int
	OnExec          func(prefix []int, x *Exec)
	StopOnViolation bool

	Execs      int
	Outcomes   map[string]int
	Violations []Found
	Capped     bool
	Fatal      string
	MaxTrace   int
	Points     int
}

type Found struct {
	Choices   []int
	Violation string
	Detail    string
}

func (e *Explorer) cost(c Choice, alt int) int {
	switch c.Kind {
	case 'd':
		return 0
	case 'e':
		return 1
	default:
		if c.Clock && alt == c.N-1 {
			return 1
		}
		if e.Chess && !c.Preempt {
			return 0
		}
		return 1
	}
}

// Explore runs the search from the given prefix (nil = root) whose deviation cost is used.
func (e *Explorer) Explore(prefix []int, used int) {
	if e.Outcomes == nil {
		e.Outcomes = map[string]int{}
	}
	e.explore(prefix, used)
}

func (e *Explorer) stop() bool {
	if e.Fatal != "" {
		return true
	}
	if e.StopOnViolation && len(e.Violations) > 0 {
		return true
	}
	if e.MaxExec > 0 && e.Execs >= e.MaxExec {
		e.Capped = true
		return true
	}
	if !e.Deadline.IsZero() && time.Now().After(e.Deadline) {
		e.Capped = true
		return true
	}
	return false
}

func (e *Explorer) explore(prefix []int, used int) {
	if e.stop() {
		return
	}
	x := e.Run(prefix)
	e.Execs++
	if x.Fatal != "" {
		e.Fatal = fmt.Sprintf("%s (prefix %v)", x.Fatal, prefix)
		return
	}
	if len(x.Trace) < len(prefix) {
		e.Fatal = fmt.Sprintf("nondeterminism: trace shorter (%d) than prefix (%d) %v", len(x.Trace), len(prefix), prefix)
		return
	}
	e.Outcomes[x.Outcome]++
	if len(x.Trace) > e.MaxTrace {
		e.MaxTrace = len(x.Trace)
	}
	e.Points += len(x.Trace) - len(prefix)
	if e.OnExec != nil {
		e.OnExec(prefix, x)
	}
	if x.Violation != "" {
		ch := make([]int, len(x.Trace))
		for i, c := range x.Trace {
			ch[i] = c.Chosen
		}
		e.Violations = append(e.Violations, Found{Choices: ch, Violation: x.Violation, Detail: x.Detail})
		if e.StopOnViolation {
			return
		}
	}
	for i := len(prefix); i < len(x.Trace); i++ {
		c := x.Trace[i]
		for alt := 1; alt < c.N; alt++ {
			cst := used + e.cost(c, alt)
			if cst > e.Bound {
				continue
			}
			np := make([]int, i+1)
			for k := 0; k < i; k++ {
				np[k] = x.Trace[k].Chosen
			}
			np[i] = alt
			e.explore(np, cst)
			if e.stop() {
				return
			}
		}
	}
}

// Children lists the first-level subtrees of the root execution (for sharding).
type Shard struct {
	Prefix []int
	Used   int
}

func (e *Explorer) Children(x *Exec, prefix []int, used int) []Shard {
	var out []Shard
	for i := len(prefix); i < len(x.Trace); i++ {
		c := x.Trace[i]
		for alt := 1; alt < c.N; alt++ {
			cst := used + e.cost(c, alt)
			if cst > e.Bound {
				continue
			}
			np := make([]int, i+1)
			for k := 0; k < i; k++ {
				np[k] = x.Trace[k].Chosen
			}
			np[i] = alt
			out = append(out, Shard{np, cst})
		}
	}
	return out
}
