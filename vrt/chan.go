package vrt

import (
	"fmt"
	"reflect"
	"sort"
)

// The instrumenter keeps native channels and brackets every channel operation with
// one of these hooks; the hook parks the thread until the native operation cannot
// block.  Only buffered channels (and close-only signalling channels) are supported:
// a rendezvous on an unbuffered channel would need two threads running at once.

func chanInfo(c any) (v reflect.Value, key uintptr, isNil bool) {
	v = reflect.ValueOf(c)
	if !v.IsValid() || v.Kind() != reflect.Chan {
		panic(fmt.Sprintf("vrt: channel hook on %T", c))
	}
	if v.IsNil() {
		return v, 0, true
	}
	return v, v.Pointer(), false
}

func (w *World) isClosed(key uintptr) bool { _, ok := w.closed[key]; return ok }

// BeforeSend parks until a send on c cannot block.
func BeforeSend(c any) {
	w, _ := cur()
	if w == nil {
		return
	}
	v, key, isNil := chanInfo(c)
	if isNil {
		w.block(&op{kind: "send", desc: "send on nil channel", enabled: func() bool { return false }})
		return
	}
	if v.Cap() == 0 {
		panic("vrt: send on unbuffered channel is not supported by the controlled runtime")
	}
	w.block(&op{kind: "send", desc: fmt.Sprintf("send chan %x (%d/%d)", key&0xffff, v.Len(), v.Cap()), enabled: func() bool {
		return v.Len() < v.Cap() || w.isClosed(key)
	}})
}

// BeforeRecv parks until a receive on c cannot block.
func BeforeRecv(c any) {
	w, _ := cur()
	if w == nil {
		return
	}
	v, key, isNil := chanInfo(c)
	if isNil {
		w.block(&op{kind: "recv", desc: "recv on nil channel", enabled: func() bool { return false }})
		return
	}
	w.block(&op{kind: "recv", desc: fmt.Sprintf("recv chan %x", key&0xffff), enabled: func() bool {
		return v.Len() > 0 || w.isClosed(key)
	}})
}

// Close closes c natively and records it.
func Close(c any) {
	w := world
	v, key, isNil := chanInfo(c)
	if isNil {
		panic("close of nil channel")
	}
	if w != nil {
		w.closed[key] = closedEnt{ref: c}
	}
	v.Close()
	if w != nil && !w.dead {
		w.block(&op{kind: "close", desc: "close", enabled: alwaysEnabled})
	}
}

// MarkClosed records that c (already closed natively by a shim) is closed.
func MarkClosed(c any) {
	w := world
	if w == nil {
		return
	}
	_, key, isNil := chanInfo(c)
	if !isNil {
		w.closed[key] = closedEnt{ref: c}
	}
}

// Select parks until one of the receive cases is ready and returns its index; with
// hasDefault it returns -1 at once when none is.  When several are ready the choice
// is an explorer decision inside a window (the first ready case otherwise).
func Select(hasDefault bool, cases ...any) int {
	w, _ := cur()
	if w == nil {
		return -1
	}
	type ci struct {
		v     reflect.Value
		key   uintptr
		isNil bool
	}
	infos := make([]ci, len(cases))
	for i, c := range cases {
		v, key, isNil := chanInfo(c)
		infos[i] = ci{v, key, isNil}
	}
	ready := func() []int {
		var r []int
		for i, in := range infos {
			if in.isNil {
				continue
			}
			if in.v.Len() > 0 || w.isClosed(in.key) {
				r = append(r, i)
			}
		}
		return r
	}
	if hasDefault {
		w.block(&op{kind: "select", desc: "select/default", enabled: alwaysEnabled})
		r := ready()
		if len(r) == 0 {
			return -1
		}
		return r[w.pickReady(len(r))]
	}
	w.block(&op{kind: "select", desc: fmt.Sprintf("select over %d channels", len(cases)), enabled: func() bool { return len(ready()) > 0 }})
	r := ready()
	return r[w.pickReady(len(r))]
}

func (w *World) pickReady(n int) int {
	if n <= 1 || !w.window {
		return 0
	}
	return w.choose(n, 's', false, func() string { return "select-ready" })
}

// SortedKeys returns the keys of map m in ascending order (descending when the
// world is configured so); the instrumenter routes every range-over-map through it.
func SortedKeys(m any) []reflect.Value {
	v := reflect.ValueOf(m)
	keys := v.MapKeys()
	sort.Slice(keys, func(i, j int) bool { return lessValue(keys[i], keys[j]) })
	if MapDescending {
		for i, j := 0, len(keys)-1; i < j; i, j = i+1, j-1 {
			keys[i], keys[j] = keys[j], keys[i]
		}
	}
	return keys
}

// MapDescending flips the iteration order of instrumented range-over-map loops.
var MapDescending bool

func lessValue(a, b reflect.Value) bool {
	switch a.Kind() {
	case reflect.Int, reflect.Int8, reflect.Int16, reflect.Int32, reflect.Int64:
		return a.Int() < b.Int()
	case reflect.Uint, reflect.Uint8, reflect.Uint16, reflect.Uint32, reflect.Uint64, reflect.Uintptr:
		return a.Uint() < b.Uint()
	case reflect.String:
		return a.String() < b.String()
	case reflect.Float32, reflect.Float64:
		return a.Float() < b.Float()
	case reflect.Bool:
		return !a.Bool() && b.Bool()
	}
	return fmt.Sprint(a.Interface()) < fmt.Sprint(b.Interface())
}

// Keys is the typed front end of SortedKeys used by rewritten range loops.
func Keys[M ~map[K]V, K comparable, V any](m M) []K {
	if len(m) == 0 {
		return nil
	}
	ks := SortedKeys(m)
	out := make([]K, len(ks))
	for i, k := range ks {
		out[i] = k.Interface().(K)
	}
	return out
}

// Recv is the hooked form of <-c.
func Recv[T any](c <-chan T) T {
	BeforeRecv(c)
	return <-c
}

// Recv2 is the hooked form of v, ok := <-c.
func Recv2[T any](c <-chan T) (T, bool) {
	BeforeRecv(c)
	v, ok := <-c
	return v, ok
}
