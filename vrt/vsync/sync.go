// Package vsync replaces "sync" in the instrumented code: same API, every blocking
// operation is a scheduling point of the controlled runtime.
package vsync

import (
	"fmt"
	"sync"

	"verif.local/vrt"
)

type Locker = sync.Locker

type Mutex struct {
	locked bool
}

func (m *Mutex) Lock() {
	if vrt.Live() {
		vrt.Block("lock", fmt.Sprintf("Mutex.Lock %p", m), func() bool { return !m.locked })
		if !vrt.Live() {
			return
		}
	}
	m.locked = true
}

func (m *Mutex) TryLock() bool {
	vrt.Yield("trylock")
	if m.locked {
		return false
	}
	m.locked = true
	return true
}

func (m *Mutex) Unlock() {
	if !vrt.Live() {
		m.locked = false
		return
	}
	if !m.locked {
		panic("sync: unlock of unlocked mutex")
	}
	m.locked = false
}

// RWMutex is writer-preferring like the real one: a pending Lock blocks new RLocks.
type RWMutex struct {
	readers int
	writer  bool
	waiting int
}

func (m *RWMutex) RLock() {
	if vrt.Live() {
		vrt.Block("rlock", fmt.Sprintf("RWMutex.RLock %p", m), func() bool { return !m.writer && m.waiting == 0 })
		if !vrt.Live() {
			return
		}
	}
	m.readers++
}

func (m *RWMutex) RUnlock() {
	if !vrt.Live() {
		if m.readers > 0 {
			m.readers--
		}
		return
	}
	if m.readers <= 0 {
		panic("sync: RUnlock of unlocked RWMutex")
	}
	m.readers--
}

func (m *RWMutex) Lock() {
	if vrt.Live() {
		m.waiting++
		vrt.Block("wlock", fmt.Sprintf("RWMutex.Lock %p", m), func() bool { return !m.writer && m.readers == 0 })
		m.waiting--
		if !vrt.Live() {
			return
		}
	}
	m.writer = true
}

func (m *RWMutex) Unlock() {
	if !vrt.Live() {
		m.writer = false
		return
	}
	if !m.writer {
		panic("sync: Unlock of unlocked RWMutex")
	}
	m.writer = false
}

func (m *RWMutex) TryLock() bool {
	vrt.Yield("trylock")
	if m.writer || m.readers > 0 {
		return false
	}
	m.writer = true
	return true
}

func (m *RWMutex) TryRLock() bool {
	vrt.Yield("tryrlock")
	if m.writer || m.waiting > 0 {
		return false
	}
	m.readers++
	return true
}

func (m *RWMutex) RLocker() Locker { return (*rlocker)(m) }

type rlocker RWMutex

func (r *rlocker) Lock()   { (*RWMutex)(r).RLock() }
func (r *rlocker) Unlock() { (*RWMutex)(r).RUnlock() }

type WaitGroup struct {
	n int
}

func (wg *WaitGroup) Add(d int) {
	wg.n += d
	if wg.n < 0 && vrt.Live() {
		panic("sync: negative WaitGroup counter")
	}
}
func (wg *WaitGroup) Done() { wg.Add(-1) }
func (wg *WaitGroup) Wait() {
	if !vrt.Live() {
		return
	}
	vrt.Block("wgwait", fmt.Sprintf("WaitGroup.Wait %p", wg), func() bool { return wg.n <= 0 })
}

type Once struct {
	done  bool
	doing bool
}

func (o *Once) Do(f func()) {
	if o.done {
		return
	}
	if o.doing {
		vrt.Block("once", "Once.Do", func() bool { return o.done })
		return
	}
	o.doing = true
	defer func() { o.done = true; o.doing = false }()
	f()
}

// Map keeps insertion order so that Range is deterministic.
type Map struct {
	keys []any
	m    map[any]any
}

func (m *Map) Load(key any) (any, bool) {
	vrt.Yield("map.load")
	v, ok := m.m[key]
	return v, ok
}

func (m *Map) Store(key, value any) {
	vrt.Yield("map.store")
	if m.m == nil {
		m.m = map[any]any{}
	}
	if _, ok := m.m[key]; !ok {
		m.keys = append(m.keys, key)
	}
	m.m[key] = value
}

func (m *Map) LoadOrStore(key, value any) (any, bool) {
	vrt.Yield("map.loadorstore")
	if v, ok := m.m[key]; ok {
		return v, true
	}
	if m.m == nil {
		m.m = map[any]any{}
	}
	m.keys = append(m.keys, key)
	m.m[key] = value
	return value, false
}

func (m *Map) LoadAndDelete(key any) (any, bool) {
	vrt.Yield("map.loadanddelete")
	v, ok := m.m[key]
	if ok {
		m.del(key)
	}
	return v, ok
}

func (m *Map) del(key any) {
	delete(m.m, key)
	for i, k := range m.keys {
		if k == key {
			m.keys = append(append([]any{}, m.keys[:i]...), m.keys[i+1:]...)
			break
		}
	}
}

func (m *Map) Delete(key any) {
	vrt.Yield("map.delete")
	if _, ok := m.m[key]; ok {
		m.del(key)
	}
}

func (m *Map) Swap(key, value any) (any, bool) {
	vrt.Yield("map.swap")
	old, ok := m.m[key]
	if m.m == nil {
		m.m = map[any]any{}
	}
	if !ok {
		m.keys = append(m.keys, key)
	}
	m.m[key] = value
	return old, ok
}

func (m *Map) CompareAndSwap(key, old, new any) bool {
	vrt.Yield("map.cas")
	if v, ok := m.m[key]; ok && v == old {
		m.m[key] = new
		return true
	}
	return false
}

func (m *Map) CompareAndDelete(key, old any) bool {
	vrt.Yield("map.cad")
	if v, ok := m.m[key]; ok && v == old {
		m.del(key)
		return true
	}
	return false
}

func (m *Map) Range(f func(key, value any) bool) {
	vrt.Yield("map.range")
	for _, k := range append([]any{}, m.keys...) {
		v, ok := m.m[k]
		if !ok {
			continue
		}
		if !f(k, v) {
			break
		}
	}
}

type Pool struct {
	New func() any
}

func (p *Pool) Get() any {
	if p.New != nil {
		return p.New()
	}
	return nil
}
func (p *Pool) Put(any) {}
