// Package vrt is the controlled runtime under which the instrumented copy of
// weedbox/pokertable (and syncsaga / timebank) is executed by the model checker.
//
// Exactly one "thread" (a real goroutine registered with the World) holds the run
// token at any time.  Every synchronisation operation of the code under test is
// routed here by the shims in vsync / vatomic / vtime / vcontext / vrand and by the
// channel hooks the instrumenter inserts; each such operation is a scheduling point
// at which the World decides who runs next.  The decision is either the default
// (non-preemptive: keep running, else lowest id) or, inside an exploration window,
// the next entry of a choice sequence supplied by the explorer.
package vrt

import (
	"fmt"
	"os"
	"runtime"
	"runtime/debug"
	"sort"
	"strings"
	"time"
)

// Epoch is the virtual time at which every World starts (seconds since 1970).
const Epoch int64 = 1_700_000_000

// Choice is one logged decision of an execution.
type Choice struct {
	N       int    // number of alternatives
	Chosen  int    // alternative taken
	Kind    byte   // 's' schedule, 'd' data, 'e' environment deviation (costed data)
	Preempt bool   // schedule choice: alternative 0 is the still-enabled running thread
	Clock   bool   // schedule choice: the last alternative fires the earliest timer
	Label   string // human readable
}

// Config of one execution.
type Config struct {
	Prefix        []int // choices to replay; after the prefix the default (0) is taken
	ClockAsThread bool  // inside a window, firing the earliest timer competes with threads
	FineAll       bool  // every thread runs in fine mode (statement points are scheduling points)
	MaxSteps      int   // horizon on scheduling steps (0 = 2,000,000)
	DataExplore   bool  // data choices (vrand etc.) are logged as choice points (else always 0)
	DataCost      bool  // data choices count as environment deviations (kind 'e') instead of being free
	ShuffleDepth  int   // vrand.Shuffle: only the first k positions are chosen (0 = all)
}

// Result of one execution.
type Result struct {
	Trace       []Choice
	Deadlock    bool
	Parked      []string // description of parked threads on deadlock
	Horizon     bool     // step budget exhausted
	Panics      []string // panics in non-driver threads (live world)
	DriverPanic string   // non-sentinel panic of the driver
	ReplayError string   // prefix could not be replayed (harness nondeterminism)
	Steps       int
	Leaked      int // threads that did not exit at teardown
	Threads     int
}

type op struct {
	kind    string
	desc    string
	enabled func() bool
	settle  bool // enabled only when no ordinary thread is enabled
}

// Thread is a registered goroutine.
type Thread struct {
	id       int
	name     string
	wake     chan struct{}
	exited   chan struct{}
	pend     *op
	done     bool
	started  bool
	fine     bool
	isDriver bool
	w        *World
}

func (t *Thread) ID() int { return t.id }

// Done reports whether the thread's function returned (or panicked).
func (t *Thread) Done() bool { return t.done }

type timerEnt struct {
	due   int64
	seq   int
	fired bool
	gone  bool
	c     chan time.Time
	fn    func()
	label string
}

type closedEnt struct {
	ref any
}

// World is the state of one execution.
type World struct {
	cfg       Config
	threads   []*Thread
	cur       *Thread
	driver    *Thread
	now       int64 // ns
	timers    []*timerEnt
	timerSeq  int
	closed    map[uintptr]closedEnt
	trace     []Choice
	window    bool
	dead      bool
	deadlock  bool
	horizon   bool
	res       *Result
	steps     int
	maxSteps  int
	rrand     []int // recorded data choices (RecordRand)
	recRand   bool
	repRand   []int
	repFrozen bool // replaying the same draws a second time (RewindRand): the enumeration record is not extended
	repPos    int
	repArity  []int
	repTaken  []int
	// hooks for harness observation
	OnTimerFire func(label string, now int64)
}

var world *World

type sentinel struct{ what string }

// Cur returns the current world and thread, or nil when no live world exists.
func cur() (*World, *Thread) {
	w := world
	if w == nil || w.dead {
		return nil, nil
	}
	return w, w.cur
}

// Live reports whether a live world exists.
func Live() bool { w := world; return w != nil && !w.dead }

func alwaysEnabled() bool { return true }

// Env is the driver's handle on the world.
type Env struct{ w *World }

// Run executes scenario as the driver thread of a fresh world.
func Run(cfg Config, scenario func(env *Env)) *Result {
	if world != nil && !world.dead {
		panic("vrt: nested Run")
	}
	w := &World{cfg: cfg, now: Epoch * 1e9, closed: map[uintptr]closedEnt{}, res: &Result{}}
	w.maxSteps = cfg.MaxSteps
	if w.maxSteps == 0 {
		w.maxSteps = 2_000_000
	}
	d := w.newThread("driver")
	d.isDriver = true
	d.started = true
	w.driver = d
	w.cur = d
	world = w
	done := make(chan struct{})
	go func() {
		defer close(done)
		defer close(d.exited)
		defer func() {
			r := recover()
			if r != nil {
				if _, ok := r.(sentinel); !ok {
					w.res.DriverPanic = fmt.Sprintf("%v\n%s", r, debug.Stack())
				}
			}
			w.dead = true
		}()
		scenario(&Env{w})
	}()
	<-done
	w.dead = true
	// teardown: release every thread that has not exited, one at a time
	for _, t := range w.threads {
		if t == d {
			continue
		}
		select {
		case <-t.exited:
			continue
		default:
		}
		select {
		case t.wake <- struct{}{}:
		default:
		}
		select {
		case <-t.exited:
		case <-time.After(5 * time.Second):
			w.res.Leaked++
		}
	}
	w.res.Trace = w.trace
	w.res.Deadlock = w.deadlock
	w.res.Horizon = w.horizon
	w.res.Steps = w.steps
	w.res.Threads = len(w.threads)
	world = nil
	return w.res
}

func (w *World) newThread(name string) *Thread {
	t := &Thread{id: len(w.threads), name: name, wake: make(chan struct{}, 1), exited: make(chan struct{}), w: w, fine: w.cfg.FineAll}
	w.threads = append(w.threads, t)
	return t
}

func (w *World) spawn(name string, fine bool, fn func()) *Thread {
	t := w.newThread(name)
	t.fine = fine || w.cfg.FineAll
	t.pend = &op{kind: "start", desc: "start " + name, enabled: alwaysEnabled}
	go w.threadMain(t, fn)
	return t
}

func (w *World) threadMain(t *Thread, fn func()) {
	defer close(t.exited)
	<-t.wake
	if w.dead {
		return
	}
	t.started = true
	t.pend = nil
	normal := false
	defer func() {
		if normal {
			return
		}
		r := recover()
		if w.dead {
			return
		}
		if r != nil {
			if _, ok := r.(sentinel); !ok {
				w.res.Panics = append(w.res.Panics, fmt.Sprintf("thread %d (%s): %v\n%s", t.id, t.name, r, trimStack(debug.Stack())))
			}
		}
		t.done = true
		t.pend = nil
		w.dispatch(t)
	}()
	fn()
	normal = true
	t.done = true
	t.pend = nil
	if !w.dead {
		w.dispatch(t)
	}
}

func trimStack(b []byte) string {
	s := string(b)
	lines := strings.Split(s, "\n")
	if len(lines) > 40 {
		lines = lines[:40]
	}
	return strings.Join(lines, "\n")
}

// block parks the current thread on o and returns when it has been chosen to run
// with o enabled.
func (w *World) block(o *op) {
	t := w.cur
	t.pend = o
	w.dispatch(t)
	t.pend = nil
}

func (w *World) fail(from *Thread, what string) {
	// the world cannot continue (deadlock / horizon): unwind the driver
	w.dead = true
	if from == w.driver {
		panic(sentinel{what})
	}
	w.cur = w.driver
	w.driver.wake <- struct{}{}
	if from.done {
		return
	}
	<-from.wake
	runtime.Goexit()
}

func (w *World) dispatch(from *Thread) {
	w.steps++
	if w.steps > w.maxSteps {
		w.horizon = true
		w.fail(from, "horizon")
		return
	}
	next := w.pick(from)
	if next == nil {
		w.deadlock = true
		for _, t := range w.threads {
			if !t.done && t.pend != nil {
				w.res.Parked = append(w.res.Parked, fmt.Sprintf("T%d(%s): %s", t.id, t.name, t.pend.desc))
			}
		}
		w.fail(from, "deadlock")
		return
	}
	if next == from {
		return
	}
	w.cur = next
	next.wake <- struct{}{}
	if from.done {
		return
	}
	<-from.wake
	if w.dead {
		if from == w.driver {
			panic(sentinel{"dead"})
		}
		runtime.Goexit()
	}
}

func (w *World) pick(from *Thread) *Thread {
	for {
		var cands []*Thread
		preempt := false
		if !from.done && from.pend != nil && !from.pend.settle && from.pend.enabled() {
			cands = append(cands, from)
			preempt = true
		}
		for _, t := range w.threads {
			if t == from || t.done || t.pend == nil || t.pend.settle {
				continue
			}
			if t.pend.enabled() {
				cands = append(cands, t)
			}
		}
		if len(cands) == 0 {
			for _, t := range w.threads {
				if !t.done && t.pend != nil && t.pend.settle && t.pend.enabled() {
					return t
				}
			}
			if w.fireEarliest() {
				continue
			}
			return nil
		}
		clock := w.cfg.ClockAsThread && w.window && w.pendingTimers() > 0
		n := len(cands)
		if clock {
			n++
		}
		idx := 0
		if w.window && n > 1 {
			idx = w.choose(n, 's', preempt, func() string {
				var sb strings.Builder
				for i, c := range cands {
					if i > 0 {
						sb.WriteString("|")
					}
					fmt.Fprintf(&sb, "T%d:%s", c.id, c.pend.kind)
				}
				if clock {
					sb.WriteString("|clock")
				}
				return sb.String()
			})
			if clock {
				w.trace[len(w.trace)-1].Clock = true
			}
		}
		if idx == len(cands) {
			w.fireEarliest()
			continue
		}
		return cands[idx]
	}
}

func (w *World) choose(n int, kind byte, preempt bool, label func() string) int {
	i := len(w.trace)
	c := 0
	if i < len(w.cfg.Prefix) {
		c = w.cfg.Prefix[i]
		if c >= n || c < 0 {
			if w.res.ReplayError == "" {
				w.res.ReplayError = fmt.Sprintf("choice %d: prefix asks for %d of %d (%s)", i, c, n, label())
			}
			c = 0
		}
	}
	w.trace = append(w.trace, Choice{N: n, Chosen: c, Kind: kind, Preempt: preempt, Label: label()})
	return c
}

// ---- timers -------------------------------------------------------------------------

func (w *World) pendingTimers() int {
	n := 0
	for _, e := range w.timers {
		if !e.gone && !e.fired {
			n++
		}
	}
	return n
}

func (w *World) addTimer(d time.Duration, label string) *timerEnt {
	if d < 0 {
		d = 0
	}
	w.timerSeq++
	e := &timerEnt{due: w.now + int64(d), seq: w.timerSeq, label: label}
	w.timers = append(w.timers, e)
	return e
}

func (w *World) earliest() *timerEnt {
	var best *timerEnt
	for _, e := range w.timers {
		if e.gone || e.fired {
			continue
		}
		if best == nil || e.due < best.due || (e.due == best.due && e.seq < best.seq) {
			best = e
		}
	}
	return best
}

func (w *World) fireEarliest() bool {
	e := w.earliest()
	if e == nil {
		return false
	}
	if e.due > w.now {
		w.now = e.due
	}
	e.fired = true
	// compact
	live := w.timers[:0]
	for _, x := range w.timers {
		if !x.gone && !x.fired {
			live = append(live, x)
		}
	}
	w.timers = live
	if w.OnTimerFire != nil {
		w.OnTimerFire(e.label, w.now)
	}
	if e.fn != nil {
		w.spawn("afterfunc", false, e.fn)
	} else if e.c != nil {
		select {
		case e.c <- time.Unix(0, w.now):
		default:
		}
	}
	return true
}

// ---- API used by shims ----------------------------------------------------------------

// Go starts fn as a new thread of the live world (natively when there is none).
func Go(fn func()) {
	w, t := cur()
	if w == nil {
		if world != nil { // dead world: do not start anything new
			return
		}
		go fn()
		return
	}
	_ = t
	w.spawn("go", false, fn)
	w.block(&op{kind: "spawn", desc: "spawn", enabled: alwaysEnabled})
}

// Yield is a plain scheduling point.
func Yield(kind string) {
	w, _ := cur()
	if w == nil {
		return
	}
	w.block(&op{kind: kind, desc: kind, enabled: alwaysEnabled})
}

// Step is inserted before every statement of the instrumented packages; it is a
// scheduling point only for threads in fine mode inside a window.
func Step() {
	w := world
	if w == nil || w.dead || !w.window {
		return
	}
	if t := w.cur; t == nil || !t.fine {
		return
	}
	w.block(&op{kind: "step", desc: "step", enabled: alwaysEnabled})
}

// Block parks the current thread until enabled() holds.
func Block(kind, desc string, enabled func() bool) {
	w, _ := cur()
	if w == nil {
		return
	}
	w.block(&op{kind: kind, desc: desc, enabled: enabled})
}

// Choose is a data choice point.
func Choose(n int, label string) int {
	w, _ := cur()
	if w == nil || n <= 1 {
		return 0
	}
	if w.repRand != nil {
		c := 0
		if w.repPos < len(w.repRand) && w.repRand[w.repPos] < n {
			c = w.repRand[w.repPos]
		}
		w.repPos++
		if !w.repFrozen {
			w.repArity = append(w.repArity, n)
			w.repTaken = append(w.repTaken, c)
		}
		return c
	}
	c := 0
	if w.cfg.DataExplore {
		kind := byte('d')
		if w.cfg.DataCost {
			kind = 'e'
		}
		c = w.choose(n, kind, false, func() string { return label })
	}
	if w.recRand {
		w.rrand = append(w.rrand, c)
	}
	return c
}

// ShuffleDepth is the configured cap on shuffle positions.
func ShuffleDepth() int {
	w, _ := cur()
	if w == nil {
		return 0
	}
	return w.cfg.ShuffleDepth
}

// NowNanos is the virtual clock (real clock when no world exists).
func NowNanos() int64 {
	w := world
	if w == nil {
		return time.Now().UnixNano()
	}
	return w.now
}

// Sleep blocks the current thread for d of virtual time.
func Sleep(d time.Duration) {
	w, _ := cur()
	if w == nil {
		return
	}
	e := w.addTimer(d, "sleep")
	w.block(&op{kind: "sleep", desc: fmt.Sprintf("sleep until +%dms", (e.due-Epoch*1e9)/1e6), enabled: func() bool { return e.fired }})
}

// TimerHandle is the runtime part of a vtime.Timer.
type TimerHandle struct {
	e *timerEnt
	C chan time.Time
	f func()
}

func NewTimerHandle(d time.Duration, f func()) *TimerHandle {
	h := &TimerHandle{f: f}
	if f == nil {
		h.C = make(chan time.Time, 1)
	}
	h.arm(d)
	return h
}

func (h *TimerHandle) arm(d time.Duration) {
	w, _ := cur()
	if w == nil {
		h.e = nil
		return
	}
	e := w.addTimer(d, "timer")
	e.c = h.C
	e.fn = h.f
	h.e = e
}

func (h *TimerHandle) Stop() bool {
	if h.e == nil {
		return false
	}
	active := !h.e.fired && !h.e.gone
	h.e.gone = true
	return active
}

func (h *TimerHandle) Reset(d time.Duration) bool {
	active := h.Stop()
	h.arm(d)
	return active
}

// ---- channels ---------------------------------------------------------------------------

// ---- driver API ---------------------------------------------------------------------------

// Go starts fn as a named thread; fine selects statement-level scheduling points.
func (e *Env) Go(name string, fine bool, fn func()) *Thread {
	w := e.w
	t := w.spawn(name, fine, fn)
	return t
}

// Settle parks the driver until no other thread can run (timers are not fired).
func (e *Env) Settle() {
	w := e.w
	if w.dead {
		panic(sentinel{"dead"})
	}
	w.block(&op{kind: "settle", desc: "settle", enabled: alwaysEnabled, settle: true})
}

// Join parks the driver until all given threads are done, as an ordinary competitor.
func (e *Env) Join(ts ...*Thread) {
	w := e.w
	w.block(&op{kind: "join", desc: "join", enabled: func() bool {
		for _, t := range ts {
			if !t.done {
				return false
			}
		}
		return true
	}})
}

// AdvanceTimer fires the earliest pending timer (moving the clock); false if none.
func (e *Env) AdvanceTimer() bool { return e.w.fireEarliest() }

// NextTimerDue returns the due time (ns) of the earliest pending timer, or -1.
func (e *Env) NextTimerDue() int64 {
	if t := e.w.earliest(); t != nil {
		return t.due
	}
	return -1
}

// AdvanceTo moves the clock to t (ns) if no timer is due before; returns false otherwise.
func (e *Env) AdvanceTo(t int64) bool {
	if x := e.w.earliest(); x != nil && x.due < t {
		return false
	}
	if t > e.w.now {
		e.w.now = t
	}
	return true
}

func (e *Env) PendingTimers() int { return e.w.pendingTimers() }
func (e *Env) Now() int64         { return e.w.now }
func (e *Env) NowUnix() int64     { return e.w.now / 1e9 }
func (e *Env) WindowBegin()       { e.w.window = true }
func (e *Env) WindowEnd()         { e.w.window = false }
func (e *Env) InWindow() bool     { return e.w.window }
func (e *Env) Steps() int         { return e.w.steps }

// Choose is a data choice made by the harness itself (always logged).
func (e *Env) Choose(n int, label string) int {
	if n <= 1 {
		return 0
	}
	return e.w.choose(n, 'd', false, func() string { return label })
}

// ChooseDev is an environment deviation: alternative 0 is the default, others cost.
func (e *Env) ChooseDev(n int, label string) int {
	if n <= 1 {
		return 0
	}
	return e.w.choose(n, 'e', false, func() string { return label })
}

func (e *Env) SetDataExplore(on bool)   { e.w.cfg.DataExplore = on }
func (e *Env) SetShuffleDepth(k int)    { e.w.cfg.ShuffleDepth = k }
func (e *Env) SetClockAsThread(on bool) { e.w.cfg.ClockAsThread = on }

// RecordRand starts recording the results of code-under-test data choices.
func (e *Env) RecordRand() { e.w.recRand = true; e.w.rrand = nil }

// RecordedRand returns what was recorded.
func (e *Env) RecordedRand() []int { return append([]int(nil), e.w.rrand...) }

// ReplayRand makes subsequent code-under-test data choices follow r.
func (e *Env) ReplayRand(r []int) {
	e.w.repRand = append([]int{}, r...)
	e.w.repPos = 0
	e.w.recRand = false
}

// ForAllRand calls f once for every sequence of code-under-test data choices it can make (depth-first
// enumeration by replay: f must be a deterministic function of the draws). Returns the number of runs.
func (e *Env) ForAllRand(f func(draws []int)) int {
	n := 0
	var rec func(prefix []int)
	rec = func(prefix []int) {
		e.w.repRand = append([]int{}, prefix...)
		e.w.repPos = 0
		e.w.repFrozen = false
		e.w.repArity, e.w.repTaken = nil, nil
		if e.w.repRand == nil {
			e.w.repRand = []int{}
		}
		f(prefix)
		n++
		ar := append([]int{}, e.w.repArity...)
		tk := append([]int{}, e.w.repTaken...)
		for i := len(prefix); i < len(ar); i++ {
			for alt := 1; alt < ar[i]; alt++ {
				np := append(append([]int{}, tk[:i]...), alt)
				rec(np)
			}
		}
	}
	rec(nil)
	e.w.repRand = nil
	e.w.repFrozen = false
	return n
}

// RewindRand (inside ForAllRand's f) restarts the replayed draw sequence from its beginning for a second,
// reference run with the same draws; draws taken from now on do not extend the enumeration.
func (e *Env) RewindRand() { e.w.repPos = 0; e.w.repFrozen = true }

// StopReplayRand returns to explored data choices.
func (e *Env) StopReplayRand() { e.w.repRand = nil }

// Panics so far (non-driver threads).
func (e *Env) Panics() []string { return e.w.res.Panics }

// Blocked lists the threads that are parked and not enabled.
func (e *Env) Blocked() []string {
	var out []string
	for _, t := range e.w.threads {
		if !t.done && t != e.w.driver && t.pend != nil && !t.pend.enabled() {
			out = append(out, fmt.Sprintf("T%d(%s): %s", t.id, t.name, t.pend.desc))
		}
	}
	sort.Strings(out)
	return out
}

// Sleepers counts the threads parked in a virtual Sleep (e.g. a retry loop).
func (e *Env) Sleepers() int {
	n := 0
	for _, t := range e.w.threads {
		if !t.done && t.pend != nil && t.pend.kind == "sleep" {
			n++
		}
	}
	return n
}

// Quiet redirects the process' stdout to /dev/null and returns a writer on the original.
func Quiet() *os.File {
	orig := os.Stdout
	null, err := os.OpenFile(os.DevNull, os.O_WRONLY, 0)
	if err == nil {
		os.Stdout = null
	}
	return orig
}
