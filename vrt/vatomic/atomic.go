// Package vatomic replaces "sync/atomic": plain memory operations (one thread runs at
// a time) preceded by a scheduling point.
package vatomic

import "verif.local/vrt"

func y() { vrt.Yield("atomic") }

func LoadInt32(p *int32) int32          { y(); return *p }
func StoreInt32(p *int32, v int32)      { y(); *p = v }
func AddInt32(p *int32, d int32) int32  { y(); *p += d; return *p }
func SwapInt32(p *int32, v int32) int32 { y(); o := *p; *p = v; return o }
func CompareAndSwapInt32(p *int32, o, n int32) bool {
	y()
	if *p == o {
		*p = n
		return true
	}
	return false
}
func LoadInt64(p *int64) int64          { y(); return *p }
func StoreInt64(p *int64, v int64)      { y(); *p = v }
func AddInt64(p *int64, d int64) int64  { y(); *p += d; return *p }
func SwapInt64(p *int64, v int64) int64 { y(); o := *p; *p = v; return o }
func CompareAndSwapInt64(p *int64, o, n int64) bool {
	y()
	if *p == o {
		*p = n
		return true
	}
	return false
}
func LoadUint32(p *uint32) uint32          { y(); return *p }
func StoreUint32(p *uint32, v uint32)      { y(); *p = v }
func AddUint32(p *uint32, d uint32) uint32 { y(); *p += d; return *p }
func CompareAndSwapUint32(p *uint32, o, n uint32) bool {
	y()
	if *p == o {
		*p = n
		return true
	}
	return false
}
func LoadUint64(p *uint64) uint64          { y(); return *p }
func StoreUint64(p *uint64, v uint64)      { y(); *p = v }
func AddUint64(p *uint64, d uint64) uint64 { y(); *p += d; return *p }
func CompareAndSwapUint64(p *uint64, o, n uint64) bool {
	y()
	if *p == o {
		*p = n
		return true
	}
	return false
}

type Bool struct{ v bool }

func (b *Bool) Load() bool       { y(); return b.v }
func (b *Bool) Store(v bool)     { y(); b.v = v }
func (b *Bool) Swap(v bool) bool { y(); o := b.v; b.v = v; return o }
func (b *Bool) CompareAndSwap(o, n bool) bool {
	y()
	if b.v == o {
		b.v = n
		return true
	}
	return false
}

type Int32 struct{ v int32 }

func (b *Int32) Load() int32        { y(); return b.v }
func (b *Int32) Store(v int32)      { y(); b.v = v }
func (b *Int32) Add(d int32) int32  { y(); b.v += d; return b.v }
func (b *Int32) Swap(v int32) int32 { y(); o := b.v; b.v = v; return o }
func (b *Int32) CompareAndSwap(o, n int32) bool {
	y()
	if b.v == o {
		b.v = n
		return true
	}
	return false
}

type Int64 struct{ v int64 }

func (b *Int64) Load() int64        { y(); return b.v }
func (b *Int64) Store(v int64)      { y(); b.v = v }
func (b *Int64) Add(d int64) int64  { y(); b.v += d; return b.v }
func (b *Int64) Swap(v int64) int64 { y(); o := b.v; b.v = v; return o }
func (b *Int64) CompareAndSwap(o, n int64) bool {
	y()
	if b.v == o {
		b.v = n
		return true
	}
	return false
}

type Value struct{ v any }

func (b *Value) Load() any   { y(); return b.v }
func (b *Value) Store(v any) { y(); b.v = v }
