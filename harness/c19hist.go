package main

// C19 (runner histories): one long-lived real player runner is taken through every sequence (up to a depth) of
// requests and reactions, so that the status machine behind "the player is suspended" (running -> idle ->
// suspended after consecutive time-outs, Resume, external Idle / Suspend) is walked through all its
// transitions while requests are pending.  The node suites show every snapshot to a *fresh* runner; this
// suite shows a few representative requests to a runner with a past.
//
// Alphabet (per step), for the request classes C (check allowed), F (facing a bet: fold, no check), R (ready):
//   timeout(k)          request k, nobody answers, the clock runs past the thinking time
//   user(k)             request k, the player answers at once through the runner (Check / Call / Ready), clock runs on
//   userfold(F)         request F, the player folds through the runner (which resumes the runner), clock runs on
//   suspend-pending(k)  request k, an external Suspend() arrives while the request is pending, clock runs on
//   superseded(k)       request k, one second later a newer state with the same request arrives, clock runs on
//   Idle / Suspend / Resume   external status calls between requests
//
// Oracle per request (one-sided where the property is silent):
//   * at most one automatic action per request; exactly one if the player did not answer;
//   * an automatic action is pass | ready | check | fold | pay(posted size) as the request allows, for the
//     runner's own player;
//   * an automatic action before request time + action time is allowed only when the action time is 0 or the
//     reference status machine says "suspended" at that moment.
// The reference status machine mirrors the runner's documented one (threshold 2): Idle(): not idle -> idle,
// count 0; idle -> count+1, suspended when count reaches the threshold; a time-out of an idle runner counts
// as Idle(); Resume()/Fold(): running, count 0; other answers: count 0.

import (
	"fmt"
	"sort"
	"strings"
	"time"

	pt "github.com/weedbox/pokertable"
	"github.com/weedbox/pokertable/actor"
	"verif.local/vrt"
)

type prModel struct {
	status    int // 0 running, 1 idle, 2 suspended
	count     int
	threshold int
}

func (m *prModel) idle() {
	if m.status != 1 {
		m.status, m.count = 1, 0
	} else {
		m.count++
	}
	if m.count == m.threshold {
		m.status = 2
	}
}
func (m *prModel) resume() {
	if m.status != 0 {
		m.status, m.count = 0, 0
	}
}

type c19Op struct {
	kind  string
	class int // index into reps, -1 for external calls
}

type c19Rep struct {
	name    string
	t       *pt.Table
	allowed []string
	want    string
	gi      int
}

func c19Reps(nodes []*snapNode, id string) []*c19Rep {
	var reps []*c19Rep
	find := func(name string, pred func(allowed []string) bool, want string) {
		for _, n := range nodes {
			gi, allowed := askedActions(n.T, id)
			if len(allowed) > 0 && pred(allowed) {
				reps = append(reps, &c19Rep{name: name, t: n.T, allowed: allowed, want: want, gi: gi})
				return
			}
		}
	}
	find("C", func(a []string) bool { return hasStr(a, "check") && !hasStr(a, "pass") }, "check")
	find("F", func(a []string) bool { return hasStr(a, "fold") && !hasStr(a, "check") && !hasStr(a, "pass") }, "fold")
	find("R", func(a []string) bool { return hasStr(a, "ready") }, "ready")
	return reps
}

func c19Ops(reps []*c19Rep) []c19Op {
	var ops []c19Op
	for i, r := range reps {
		for _, k := range []string{"timeout", "user", "suspend-pending", "superseded"} {
			ops = append(ops, c19Op{k, i})
		}
		if r.name == "F" {
			ops = append(ops, c19Op{"userfold", i})
		}
	}
	for _, k := range []string{"Idle", "Suspend", "Resume"} {
		ops = append(ops, c19Op{k, -1})
	}
	return ops
}

func (o c19Op) str(reps []*c19Rep) string {
	if o.class < 0 {
		return o.kind
	}
	return o.kind + "(" + reps[o.class].name + ")"
}

// c19RunSeq plays one sequence on a fresh runner and returns the first violated clause (or nil).
func c19RunSeq(id string, reps []*c19Rep, seq []c19Op, at int, st *SuiteStats) (v *Viol, outcome string) {
	vrt.Run(vrt.Config{MaxSteps: 200000}, func(env *vrt.Env) {
		rec := &recEngine{now: env.Now}
		pr := actor.NewPlayerRunner(id)
		model := &prModel{threshold: 2}
		var a actor.Actor
		serial := int64(0)
		base := int64(0)
		for _, r := range reps {
			if u := r.t.State.GameState.UpdatedAt; u > base {
				base = u
			}
		}
		var outs []string
		show := func(r *c19Rep) int64 {
			view := deepCopy(r.t)
			view.Meta.ActionTime = at
			serial++
			view.State.GameState.UpdatedAt = base + serial // reps come from different moments: keep the runner's staleness filter out of it
			view.State.GameState.GameID = "g"
			view.UpdateSerial += serial
			if a == nil {
				a = newActorOn(rec, deepCopy(view), pr)
			}
			a.GetTable().UpdateTableState(view)
			env.Settle()
			st.Transitions++
			return env.Now()
		}
		// runClock fires every timer due up to `until`; each firing of the thinking-time timer of an idle
		// runner counts as Idle() in the reference machine. Returns the times at which timers fired.
		runClock := func(until int64, armed bool) {
			for i := 0; i < 8 && env.PendingTimers() > 0 && env.NextTimerDue() <= until; i++ {
				env.AdvanceTimer()
				env.Settle()
			}
			env.AdvanceTo(until)
		}
		for si, op := range seq {
			label := op.str(reps)
			if op.class < 0 {
				switch op.kind {
				case "Idle":
					pr.Idle()
					model.idle()
				case "Suspend":
					pr.Suspend()
					model.status = 2
				case "Resume":
					pr.Resume()
					model.resume()
				}
				env.Settle()
				outs = append(outs, label)
				continue
			}
			r := reps[op.class]
			n0 := len(rec.calls)
			userCalls, userLo := 0, -1
			suspendedAtReq := model.status == 2
			tReq := show(r)
			// what the thinking-time timer does to the reference machine when it fires un-cancelled
			timerArmed := !suspendedAtReq
			immediateOK := at == 0 || suspendedAtReq
			onTimer := func() {
				if timerArmed && model.status == 1 {
					model.idle()
				}
			}
			if at == 0 && timerArmed {
				onTimer() // fired synchronously inside the request
				timerArmed = false
			}
			suspendedLater := int64(-1)
			switch op.kind {
			case "timeout":
			case "user", "userfold":
				k0 := len(rec.calls)
				switch {
				case op.kind == "userfold":
					pr.Fold()
					model.resume()
				case r.name == "C":
					pr.Check()
					model.count = 0
				case r.name == "F":
					pr.Call()
					model.count = 0
				case r.name == "R":
					pr.Ready()
					model.count = 0
				}
				env.Settle()
				userCalls, userLo = len(rec.calls)-k0, k0-n0
			case "suspend-pending":
				pr.Suspend()
				model.status = 2
				suspendedLater = env.Now()
				env.Settle()
			case "superseded":
				if at > 1 {
					runClock(tReq+1e9, timerArmed)
					early := len(rec.calls) - n0
					if early > 0 && !immediateOK {
						v = &Viol{Key: "acts-before-thinking-time", Detail: fmt.Sprintf("step %d %s: %d automatic action(s) %+v one second after the request, action time %ds", si+1, label, early, rec.calls[n0:], at)}
						return
					}
					n0 = len(rec.calls)
					suspendedAtReq = model.status == 2
					immediateOK = at == 0 || suspendedAtReq
					timerArmed = !suspendedAtReq
					tReq = show(r) // the newer state: the first request's timer is cancelled
				}
			}
			runClock(tReq+int64(at+2)*1e9, timerArmed)
			if timerArmed {
				onTimer()
			}
			all := rec.calls[n0:]
			autos := len(all) - userCalls
			outs = append(outs, fmt.Sprintf("%s:%d", label, autos))
			st.Execs++
			if autos > 1 {
				v = &Viol{Key: fmt.Sprintf("auto-play-calls-%d", autos), Detail: fmt.Sprintf("step %d %s: one request (allowed %v) drew %d automatic actions: %+v", si+1, label, r.allowed, autos, all)}
				return
			}
			if autos == 0 && userCalls == 0 {
				v = &Viol{Key: "auto-play-calls-0", Detail: fmt.Sprintf("step %d %s: nobody answered the request (allowed %v) and the runner never acted for the player", si+1, label, r.allowed)}
				return
			}
			for i, c := range all {
				if userLo >= 0 && i >= userLo && i < userLo+userCalls {
					continue // the player's own answer
				}
				if c.ID != id || c.Kind != r.want {
					v = &Viol{Key: "auto-play-not-conservative@" + c.Kind, Detail: fmt.Sprintf("step %d %s: with allowed %v the runner submitted %s for %s, the conservative move is %s", si+1, label, r.allowed, c.Kind, c.ID, r.want)}
					return
				}
				early := c.VTime < tReq+int64(at)*1e9
				if early && !immediateOK && !(suspendedLater >= 0 && c.VTime >= suspendedLater) {
					v = &Viol{Key: "acts-before-thinking-time", Detail: fmt.Sprintf("step %d %s: automatic %s %dms after the request, action time %ds, reference status %d (0 running, 1 idle, 2 suspended)", si+1, label, c.Kind, (c.VTime-tReq)/1e6, at, model.status)}
					return
				}
			}
		}
		// outcome class: the set of (operation, number of automatic actions) pairs seen in the sequence
		set := map[string]bool{}
		for _, o := range outs {
			set[o] = true
		}
		var ks []string
		for k := range set {
			ks = append(ks, k)
		}
		sort.Strings(ks)
		outcome = strings.Join(ks, " ")
	})
	return v, outcome
}

func c19HistSuite(tier string, shard, shards int) *Suite {
	name := fmt.Sprintf("c19/runner-histories/shard%d", shard)
	return &Suite{Name: name, Weight: 5, Direct: func(st *SuiteStats) {
		all := actorConfigs(tier)
		var cfgs []*handCfg
		for _, c := range all {
			if len(c.ids) == 2 && len(cfgs) < 6 {
				cfgs = append(cfgs, c)
			}
		}
		nodes, _, fatal := collectSnapshots(cfgs, 0)
		if fatal != "" {
			st.Fatal = fatal
			return
		}
		id := "b"
		reps := c19Reps(nodes, id)
		if len(reps) < 3 {
			id = "a"
			reps = c19Reps(nodes, id)
		}
		if len(reps) < 3 {
			st.Fatal = fmt.Sprintf("representative requests missing: only %d of 3 classes found", len(reps))
			return
		}
		ops := c19Ops(reps)
		depth := 4
		ats := []int{10, 0}
		if tier == "thorough" {
			depth = 5
			ats = []int{10, 0, 1}
		}
		viol := map[string]*Violation{}
		st.Outcomes = map[string]int{}
		seqs := 0
		capped := false
		var rec func(seq []c19Op)
		rec = func(seq []c19Op) {
			if capped {
				return
			}
			if len(seq) == depth {
				seqs++
				if seqs%256 == 0 && time.Now().After(deadline) {
					capped = true
					return
				}
				for _, at := range ats {
					v, out := c19RunSeq(id, reps, seq, at, st)
					st.Outcomes[out]++
					if v != nil {
						if _, ok := viol[v.Key]; !ok && !hitKnown(v.Key, v.Detail) {
							clause, k := splitKey(v.Key)
							var names []string
							for _, o := range seq {
								names = append(names, o.str(reps))
							}
							viol[v.Key] = &Violation{Suite: name, Clause: clause, Key: k, Detail: v.Detail + fmt.Sprintf("\nrunner of %s, action time %ds, sequence: %s", id, at, strings.Join(names, " "))}
						}
					}
				}
				return
			}
			for i, o := range ops {
				if len(seq) == 0 && i%shards != shard {
					continue
				}
				rec(append(append([]c19Op{}, seq...), o))
			}
		}
		rec(nil)
		st.States = len(st.Outcomes)
		st.Capped = capped
		var rn []string
		for _, r := range reps {
			rn = append(rn, fmt.Sprintf("%s=%v", r.name, r.allowed))
		}
		st.Notes = append(st.Notes, fmt.Sprintf("%s: %d sequences of depth %d over %d operations (requests %s) x action times %v on a long-lived runner of %s; %d distinct per-request outcomes", name, seqs, depth, len(ops), strings.Join(rn, " "), ats, id, len(st.Outcomes)))
		keys := make([]string, 0, len(viol))
		for k := range viol {
			keys = append(keys, k)
		}
		sort.Strings(keys)
		for _, k := range keys {
			st.Violations = append(st.Violations, *viol[k])
		}
	}}
}
