package main

// C01 (schedule part): a top-up racing the opening of a hand. An injector thread adds chips / re-buys while
// the gate's completion runs tableGameOpen / openGame (clone and swap) / startGame in fine mode; every
// schedule within the deviation bound is executed. Whatever the order, the chips must not be lost:
// after the hand the bankrolls sum to everything brought in.

import (
	"fmt"

	pt "github.com/weedbox/pokertable"
	"verif.local/vrt"
)

func c01Inject(prefix []int, op string) *vrt.Exec {
	return runTable(prefix, vrt.Config{FineAll: true}, func(env *vrt.Env) (string, string, string) {
		td, err := newTD(env, defaultCfg(3))
		if err != nil {
			return "", "harness-create", err.Error()
		}
		td.seatIn([]string{"a", "b"}, []int{0, 1}, []int64{20, 20})
		in := int64(40)
		td.start()
		env.Settle()
		var ret error
		env.WindowBegin()
		env.AdvanceTimer() // the gate's timeout: tableGameOpen becomes runnable
		th := env.Go("injector:"+op, true, func() {
			switch op {
			case "addon":
				ret = td.te.PlayerRedeemChips(pt.JoinPlayer{PlayerID: "a", RedeemChips: 3})
			case "rebuy":
				ret = td.te.PlayerReserve(pt.JoinPlayer{PlayerID: "a", RedeemChips: 3, Seat: -1})
			}
		})
		for i := 0; i < 6; i++ {
			env.Settle()
			if td.pending().Kind != "" || env.PendingTimers() == 0 {
				break
			}
			env.AdvanceTimer()
		}
		env.Join(th)
		env.WindowEnd()
		if ret == nil {
			in += 3
		}
		pol := &HandPolicy{Line: lineFoldOut, Finish: "none"}
		ok := td.runUntil(pol, 300, func() bool {
			return td.table().State.GameCount == 1 && td.status() == pt.TableStateStatus_TableGameStandby
		})
		sum := td.sumBankroll()
		out := fmt.Sprintf("%s returned %v; settled=%v; bankrolls sum to %d, brought in %d", op, ret, ok, sum, in)
		if ok && sum != in {
			return out, "top-up-lost@racing-open/" + op, fmt.Sprintf("%s of 3 chips returned %v while hand 1 was being opened; after the hand the bankrolls sum to %d although %d chips were brought in", op, ret, sum, in)
		}
		return out, "", ""
	})
}

func c01SchedSuites(tier string) []*Suite {
	bound := 1
	if tier == "thorough" {
		bound = 2
	}
	var ss []*Suite
	for _, op := range []string{"addon", "rebuy"} {
		op := op
		ss = append(ss, &Suite{Name: "c01/inject-topup/" + op, Bound: bound, Weight: 50, Run: func(prefix []int) *vrt.Exec { return c01Inject(prefix, op) }})
	}
	return ss
}
