package main

// C03 (schedule part): one membership call racing the opening of a hand (the table is cloned, positions
// are rotated in the seat manager and the clone is swapped in while the hand opens). Whatever the order,
// table, seat map and seat manager must agree afterwards, a call that returned nil must have taken effect
// (the newcomer is on the table, the leaver is gone) and a call that returned an error must not.

import (
	"fmt"

	pt "github.com/weedbox/pokertable"
	"verif.local/vrt"
)

func c03Inject(prefix []int, op string) *vrt.Exec {
	return runTable(prefix, vrt.Config{FineAll: true}, func(env *vrt.Env) (string, string, string) {
		td, err := newTD(env, defaultCfg(4))
		if err != nil {
			return "", "harness-create", err.Error()
		}
		td.seatIn([]string{"a", "b"}, []int{0, 1}, []int64{20, 20})
		td.reserve("c", 2, 20) // seated, not yet sat in
		td.start()
		env.Settle()
		var ret error
		env.WindowBegin()
		env.AdvanceTimer() // the gate's timeout: tableGameOpen becomes runnable
		th := env.Go("injector:"+op, true, func() {
			switch op {
			case "join":
				ret = td.te.PlayerJoin("c")
			case "reserve":
				ret = td.te.PlayerReserve(pt.JoinPlayer{PlayerID: "x", RedeemChips: 20, Seat: 3})
			case "reserve-random":
				ret = td.te.PlayerReserve(pt.JoinPlayer{PlayerID: "x", RedeemChips: 20, Seat: -1})
			case "leave":
				ret = td.te.PlayersLeave([]string{"c"})
			case "update":
				_, ret = td.te.UpdateTablePlayers([]pt.JoinPlayer{{PlayerID: "x", RedeemChips: 20, Seat: 3}}, []string{"c"})
			}
		})
		for i := 0; i < 6; i++ {
			env.Settle()
			if td.pending().Kind != "" || env.PendingTimers() == 0 {
				break
			}
			env.AdvanceTimer()
		}
		env.Join(th)
		env.WindowEnd()
		env.Settle()
		has := func(id string) bool { return td.player(id) != nil }
		out := fmt.Sprintf("%s returned %v; c on the table: %v (seated-in %v); x on the table: %v", op, ret, has("c"), has("c") && td.player("c").IsIn, has("x"))
		if v := membInvariant(td); v != nil {
			return out, "invariant@" + v.Key + "/" + op + "-racing-open", op + " returned " + fmt.Sprint(ret) + " while hand 1 was being opened; afterwards: " + v.Detail
		}
		wantX := ret == nil && (op == "reserve" || op == "reserve-random" || op == "update")
		wantC := !(ret == nil && (op == "leave" || op == "update"))
		if has("x") != wantX && op != "join" {
			return out, "call-result-vs-state@" + op + "-racing-open", fmt.Sprintf("%s returned %v while hand 1 was being opened, but afterwards the newcomer x is on the table: %v", op, ret, has("x"))
		}
		if has("c") != wantC {
			return out, "call-result-vs-state@" + op + "-racing-open", fmt.Sprintf("%s returned %v while hand 1 was being opened, but afterwards c is on the table: %v", op, ret, has("c"))
		}
		return out, "", ""
	})
}

func c03SchedSuites(tier string) []*Suite {
	bound := 1
	if tier == "thorough" {
		bound = 2
	}
	var ss []*Suite
	for _, op := range []string{"join", "reserve", "reserve-random", "leave", "update"} {
		op := op
		ss = append(ss, &Suite{Name: "memb/inject-" + op + "-racing-open", Bound: bound, Weight: 50, Run: func(prefix []int) *vrt.Exec { return c03Inject(prefix, op) }})
	}
	return ss
}
