package main

// C03 (schedule part): PlayerJoin racing the opening of a hand (the table is cloned and swapped while the
// hand opens). Whatever the order, table and seat manager must agree on the seated-in flag afterwards.

import (
	"fmt"

	"verif.local/vrt"
)

func c03Inject(prefix []int) *vrt.Exec {
	return runTable(prefix, vrt.Config{FineAll: true}, func(env *vrt.Env) (string, string, string) {
		td, err := newTD(env, defaultCfg(4))
		if err != nil {
			return "", "harness-create", err.Error()
		}
		td.seatIn([]string{"a", "b"}, []int{0, 1}, []int64{20, 20})
		td.reserve("c", 2, 20) // seated, not yet sat in
		td.start()
		env.Settle()
		var ret error
		env.WindowBegin()
		env.AdvanceTimer() // the gate's timeout: tableGameOpen becomes runnable
		th := env.Go("injector:join", true, func() { ret = td.te.PlayerJoin("c") })
		for i := 0; i < 6; i++ {
			env.Settle()
			if td.pending().Kind != "" || env.PendingTimers() == 0 {
				break
			}
			env.AdvanceTimer()
		}
		env.Join(th)
		env.WindowEnd()
		env.Settle()
		out := fmt.Sprintf("join returned %v; c seated-in on the table: %v", ret, td.player("c") != nil && td.player("c").IsIn)
		if v := membInvariant(td); v != nil {
			return out, "invariant@" + v.Key + "/join-racing-open", "PlayerJoin(c) returned " + fmt.Sprint(ret) + " while hand 1 was being opened; afterwards: " + v.Detail
		}
		return out, "", ""
	})
}

func c03SchedSuites(tier string) []*Suite {
	bound := 1
	if tier == "thorough" {
		bound = 2
	}
	return []*Suite{{Name: "memb/inject-join-racing-open", Bound: bound, Weight: 50, Run: c03Inject}}
}
