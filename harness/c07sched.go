package main

// C07 (schedule part): an external call racing the continue step / the asynchronous open-game trigger.
// After hand 1 settles an injector thread performs one call while the continue timer, its handler, the
// gate and tableGameOpen run; every thread is in fine mode and the clock competes, so the call can land
// between any two statements of those steps.  All schedules within the deviation bound are executed.

import (
	"fmt"

	pt "github.com/weedbox/pokertable"
	"verif.local/vrt"
)

func c07Inject(prefix []int, op string, n int) *vrt.Exec {
	return runTable(prefix, vrt.Config{FineAll: true, ClockAsThread: true}, func(env *vrt.Env) (string, string, string) {
		td, err := newTD(env, defaultCfg(4))
		if err != nil {
			return "", "harness-create", err.Error()
		}
		ids := []string{"a", "b", "c"}[:n]
		td.seatIn(ids, []int{0, 1, 2}[:n], []int64{9, 9, 9}[:n])
		td.start()
		pol := &HandPolicy{Line: lineFoldOut, Finish: "none"}
		if !td.runUntil(pol, 300, func() bool {
			return td.table().State.GameCount == 1 && td.status() == pt.TableStateStatus_TableGameStandby
		}) {
			return "", "harness-base", "hand 1 did not settle"
		}
		var retAt int64 = -1
		retSeq := -1
		env.WindowBegin()
		th := env.Go("injector:"+op, true, func() {
			switch op {
			case "close":
				td.te.CloseTable()
			case "release":
				td.te.ReleaseTable()
			}
			retAt = env.Now()
			retSeq = len(td.snaps)
		})
		for i := 0; i < 12; i++ {
			env.Settle()
			if td.table().State.GameCount >= 2 || env.PendingTimers() == 0 {
				break
			}
			env.AdvanceTimer()
		}
		env.Join(th)
		env.WindowEnd()
		env.Settle()
		var openedAt int64 = -1
		for _, s := range td.snaps {
			if s.T.State.GameCount == 2 && s.T.State.Status == pt.TableStateStatus_TableGameOpened && openedAt < 0 {
				openedAt = s.VTime
			}
		}
		outcome := fmt.Sprintf("%s returned at +%dms, hand 2 opened at %dms, status %s", op, (retAt-vrt.Epoch*1e9)/1e6, (openedAt-vrt.Epoch*1e9)/1e6, td.status())
		if openedAt >= 0 && retAt >= 0 && openedAt > retAt {
			return outcome, "opened-after-stop@" + op, fmt.Sprintf("%s returned at virtual time +%dms (between hands, table in standby); hand 2 nevertheless opened at +%dms, i.e. the open-game trigger fired strictly later and tableGameOpen went ahead", op, (retAt-vrt.Epoch*1e9)/1e6, (openedAt-vrt.Epoch*1e9)/1e6)
		}
		_ = retSeq
		return outcome, "", ""
	})
}

func c07SchedSuites(tier string) []*Suite {
	bound := 1
	if tier == "thorough" {
		bound = 2
	}
	var ss []*Suite
	for _, op := range []string{"close", "release"} {
		for _, n := range []int{2, 3} {
			op, n := op, n
			if tier == "quick" && n == 3 {
				continue
			}
			ss = append(ss, &Suite{Name: fmt.Sprintf("c07/inject/%s/n%d", op, n), Bound: bound, Weight: 50, Run: func(prefix []int) *vrt.Exec { return c07Inject(prefix, op, n) }})
		}
	}
	return ss
}
