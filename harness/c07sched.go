package main

// C07 (schedule part): an external call racing the continue step / the asynchronous open-game trigger.
// After hand 1 settles an injector thread performs one call while the continue timer, its handler, the
// gate and tableGameOpen run; every thread is in fine mode and the clock competes, so the call can land
// between any two statements of those steps.  All schedules within the deviation bound are executed.

import (
	"fmt"

	pt "github.com/weedbox/pokertable"
	"verif.local/vrt"
	"verif.local/vrt/vsync"
)

func c07Inject(prefix []int, op string, n int, phase string) *vrt.Exec {
	return runTable(prefix, vrt.Config{FineAll: true, ClockAsThread: true}, func(env *vrt.Env) (string, string, string) {
		td, err := newTD(env, defaultCfg(4))
		if err != nil {
			return "", "harness-create", err.Error()
		}
		ids := []string{"a", "b", "c"}[:n]
		td.seatIn(ids, []int{0, 1, 2}[:n], []int64{9, 9, 9}[:n])
		td.start()
		pol := &HandPolicy{Line: lineFoldOut, Finish: "none"}
		if !td.runUntil(pol, 300, func() bool {
			return td.table().State.GameCount == 1 && td.status() == pt.TableStateStatus_TableGameStandby
		}) {
			return "", "harness-base", "hand 1 did not settle"
		}
		var retAt int64 = -1
		retSeq := -1
		if phase == "open" {
			// let the continue handler set the next hand up first; the window then starts with the gate's
			// timeout firing, so the injected call competes with tableGameOpen itself from its first statement
			for i := 0; i < 4 && env.PendingTimers() > 0; i++ {
				if og := pt.VerifOpenGameManager(td.te); og != nil && og.GetState().GameCount == 2 {
					break
				}
				env.AdvanceTimer()
				env.Settle()
			}
			if og := pt.VerifOpenGameManager(td.te); og == nil || og.GetState().GameCount != 2 {
				return "", "harness-base", "hand 2 was not set up"
			}
		}
		env.WindowBegin()
		if phase == "open" {
			env.AdvanceTimer() // the gate's timeout: tableGameOpen becomes runnable
		}
		th := env.Go("injector:"+op, true, func() {
			switch op {
			case "close":
				td.te.CloseTable()
			case "release":
				td.te.ReleaseTable()
			}
			retAt = env.Now()
			retSeq = len(td.snaps)
		})
		for i := 0; i < 12; i++ {
			env.Settle()
			if td.table().State.GameCount >= 2 || env.PendingTimers() == 0 {
				break
			}
			env.AdvanceTimer()
		}
		env.Join(th)
		env.WindowEnd()
		env.Settle()
		var openedAt int64 = -1
		for _, s := range td.snaps {
			if s.T.State.GameCount == 2 && s.T.State.Status == pt.TableStateStatus_TableGameOpened && openedAt < 0 {
				openedAt = s.VTime
			}
		}
		outcome := fmt.Sprintf("%s returned at +%dms, hand 2 opened at %dms, status %s", op, (retAt-vrt.Epoch*1e9)/1e6, (openedAt-vrt.Epoch*1e9)/1e6, td.status())
		if openedAt >= 0 && retAt >= 0 && openedAt > retAt {
			return outcome, "opened-after-stop@" + op, fmt.Sprintf("%s returned at virtual time +%dms (between hands, table in standby); hand 2 nevertheless opened at +%dms, i.e. the open-game trigger fired strictly later and tableGameOpen went ahead", op, (retAt-vrt.Epoch*1e9)/1e6, (openedAt-vrt.Epoch*1e9)/1e6)
		}
		_ = retSeq
		return outcome, "", ""
	})
}

// c07LockHeld: the closed / released check of tableGameOpen must be made under the engine lock. A top-up
// (PlayerReserve of a seated player) is
// parked inside its own notification callback (which the engine invokes while holding te.lock); with the
// lock held the gate's timeout fires (tableGameOpen becomes runnable) and CloseTable / ReleaseTable is
// called and returns; only then is the add-on let go. The opening needs the lock from its check to the swap,
// and the lock was held during the whole close call, so the check necessarily comes after the close
// returned: no hand may open, whatever the schedule of the opener against the closer.
func c07LockHeld(prefix []int, op string) *vrt.Exec {
	return runTable(prefix, vrt.Config{FineAll: true}, func(env *vrt.Env) (string, string, string) {
		td, err := newTD(env, defaultCfg(4))
		if err != nil {
			return "", "harness-create", err.Error()
		}
		td.seatIn([]string{"a", "b"}, []int{0, 1}, []int64{9, 9})
		td.start()
		pol := &HandPolicy{Line: lineFoldOut, Finish: "none"}
		if !td.runUntil(pol, 300, func() bool {
			return td.table().State.GameCount == 1 && td.status() == pt.TableStateStatus_TableGameStandby
		}) {
			return "", "harness-base", "hand 1 did not settle"
		}
		for i := 0; i < 4 && env.PendingTimers() > 0; i++ {
			if og := pt.VerifOpenGameManager(td.te); og != nil && og.GetState().GameCount == 2 {
				break
			}
			env.AdvanceTimer()
			env.Settle()
		}
		if og := pt.VerifOpenGameManager(td.te); og == nil || og.GetState().GameCount != 2 {
			return "", "harness-base", "hand 2 was not set up"
		}
		before := td.player("a").Bankroll
		var park vsync.Mutex
		park.Lock()
		parked := false
		td.onSnap = func(sn *Snap) {
			if parked {
				return
			}
			if p, _ := playerByID(sn.T, "a"); p != nil && p.Bankroll == before+3 {
				parked = true
				park.Lock() // blocks (inside the engine's callback, te.lock held) until the driver lets go
				park.Unlock()
			}
		}
		holder := env.Go("holder:top-up", false, func() { td.reserve("a", -1, 3) })
		env.Settle()
		if !parked {
			return "", "harness-base", "the top-up did not reach its notification"
		}
		closed := false
		env.WindowBegin()
		env.AdvanceTimer() // the gate's timeout: tableGameOpen becomes runnable (and will need te.lock)
		closer := env.Go("closer:"+op, true, func() {
			if op == "close" {
				td.te.CloseTable()
			} else {
				td.te.ReleaseTable()
			}
			closed = true
		})
		env.Settle()
		if !closed {
			env.WindowEnd()
			return "", "harness-base", op + " did not return while the lock was held"
		}
		park.Unlock()
		env.Join(holder, closer)
		env.WindowEnd()
		env.Settle()
		for i := 0; i < 6 && env.PendingTimers() > 0 && td.table().State.GameCount < 2; i++ {
			env.AdvanceTimer()
			env.Settle()
		}
		out := fmt.Sprintf("%s returned while a top-up held the engine lock; afterwards game count %d, status %s", op, td.table().State.GameCount, td.status())
		if td.table().State.GameCount >= 2 {
			return out, "opened-after-stop@" + op + "/open-trigger-waiting-for-the-engine-lock", fmt.Sprintf("between hands (standby, hand 2 set up) a top-up (PlayerReserve) held the engine lock inside its notification callback; the open-game timeout fired and %s returned while the lock was still held; when the add-on finished, hand 2 opened all the same (game count %d, status %s)", op, td.table().State.GameCount, td.status())
		}
		return out, "", ""
	})
}

func c07SchedSuites(tier string) []*Suite {
	bound := 1
	if tier == "thorough" {
		bound = 2
	}
	var ss []*Suite
	for _, op := range []string{"close", "release"} {
		op := op
		ss = append(ss, &Suite{Name: "c07/inject-lock-held/" + op, Bound: bound, Weight: 20, Run: func(prefix []int) *vrt.Exec { return c07LockHeld(prefix, op) }})
	}
	for _, op := range []string{"close", "release"} {
		for _, n := range []int{2, 3} {
			op, n := op, n
			if tier == "quick" && n == 3 {
				continue
			}
			ss = append(ss, &Suite{Name: fmt.Sprintf("c07/inject/%s/n%d", op, n), Bound: bound, Weight: 50, Run: func(prefix []int) *vrt.Exec { return c07Inject(prefix, op, n, "continue") }})
			ss = append(ss, &Suite{Name: fmt.Sprintf("c07/inject-at-open/%s/n%d", op, n), Bound: bound, Weight: 50, Run: func(prefix []int) *vrt.Exec { return c07Inject(prefix, op, n, "open") }})
		}
	}
	return ss
}
