package main

// C09 — the open-game gate (open_game_manager + syncsaga + timebank), every interleaving
// of ready signals, re-set-ups and timeout expiry within a preemption bound.

import (
	"fmt"
	"sort"
	"strings"

	ogm "github.com/weedbox/pokertable/open_game_manager"
	"verif.local/vrt"
)

type gateOp struct {
	kind  string // "ready" | "setup"
	id    string
	gc    int
	parts []string
}

func (o gateOp) String() string {
	if o.kind == "ready" {
		return "ready(" + o.id + ")"
	}
	return fmt.Sprintf("setup(%d,%v)", o.gc, o.parts)
}

type gateScenario struct {
	name    string
	initial []string
	threads [][]gateOp
	timeout int
	restore int // >0: sequential restore scenario, split point
}

type gateEvent struct {
	kind   string // setup-start setup-end ready-start ready-end cb
	thread int
	op     gateOp
	err    string
	vtime  int64
	gc     int
	parts  map[string]bool // cb: id -> IsReady
}

func partsMap(ids []string) map[string]int {
	m := map[string]int{}
	for i, id := range ids {
		m[id] = i
	}
	return m
}

func (sc *gateScenario) ops() string {
	var sb strings.Builder
	fmt.Fprintf(&sb, "setup(1,%v)", sc.initial)
	for i, th := range sc.threads {
		fmt.Fprintf(&sb, " || T%d:", i+1)
		for _, o := range th {
			sb.WriteString(" " + o.String())
		}
	}
	return sb.String()
}

func (sc *gateScenario) run(prefix []int) *vrt.Exec {
	var evs []gateEvent
	var finalState string
	res := vrt.Run(vrt.Config{Prefix: prefix, ClockAsThread: true, MaxSteps: 200000}, func(env *vrt.Env) {
		m := ogm.NewOpenGameManager(ogm.OpenGameOption{
			Timeout: sc.timeout,
			OnOpenGameReady: func(st ogm.OpenGameState) {
				e := gateEvent{kind: "cb", vtime: env.Now(), gc: st.GameCount, parts: map[string]bool{}}
				for id, p := range st.Participants {
					e.parts[id] = p.IsReady
				}
				evs = append(evs, e)
			},
		})
		do := func(th int, o gateOp) {
			switch o.kind {
			case "setup":
				evs = append(evs, gateEvent{kind: "setup-start", thread: th, op: o, vtime: env.Now()})
				m.Setup(o.gc, partsMap(o.parts))
				evs = append(evs, gateEvent{kind: "setup-end", thread: th, op: o, vtime: env.Now()})
			case "ready":
				evs = append(evs, gateEvent{kind: "ready-start", thread: th, op: o, vtime: env.Now()})
				err := m.Ready(o.id)
				e := gateEvent{kind: "ready-end", thread: th, op: o, vtime: env.Now()}
				if err != nil {
					e.err = err.Error()
				}
				evs = append(evs, e)
			}
		}
		do(0, gateOp{kind: "setup", gc: 1, parts: sc.initial})
		env.WindowBegin()
		var ths []*vrt.Thread
		for i, ops := range sc.threads {
			i, ops := i, ops
			ths = append(ths, env.Go(fmt.Sprintf("caller%d", i+1), false, func() {
				for _, o := range ops {
					do(i+1, o)
				}
			}))
		}
		env.Join(ths...)
		for {
			env.Settle()
			if env.PendingTimers() == 0 {
				break
			}
			env.AdvanceTimer()
		}
		env.WindowEnd()
		st := m.GetState()
		finalState = gateStateString(st)
	})
	x := &vrt.Exec{Trace: res.Trace}
	if res.ReplayError != "" {
		x.Fatal = "replay: " + res.ReplayError
		return x
	}
	if res.DriverPanic != "" {
		x.Fatal = "driver panic: " + res.DriverPanic
		return x
	}
	if res.Leaked > 0 {
		x.Fatal = "leaked threads"
		return x
	}
	x.Outcome = gateOutcome(evs) + " final=" + finalState
	if res.Horizon {
		x.Violation, x.Detail = "never-returns@horizon", "step budget exhausted: the gate keeps running\n"+sc.ops()
		return x
	}
	if res.Deadlock {
		site := "other"
		for _, p := range res.Parked {
			if strings.Contains(p, "RWMutex.RLock") {
				site = "readygroup-recursive-rlock"
			}
		}
		x.Violation = "never-returns@" + site
		x.Detail = "deadlock: a Setup/Ready call or the gate's consumer never returns, so the generation being established cannot fire\nparked: " + strings.Join(res.Parked, "; ") + "\nops: " + sc.ops() + "\nevents: " + gateEventsString(evs)
		return x
	}
	if len(res.Panics) > 0 {
		x.Violation = "panic@" + firstLine(res.Panics[0])
		x.Detail = res.Panics[0] + "\nops: " + sc.ops()
		return x
	}
	if v, d := sc.oracle(evs); v != "" {
		x.Violation = v
		x.Detail = d + "\nops: " + sc.ops() + "\nevents: " + gateEventsString(evs)
	}
	return x
}

func firstLine(s string) string {
	if i := strings.Index(s, "\n"); i >= 0 {
		s = s[:i]
	}
	if len(s) > 120 {
		s = s[:120]
	}
	return s
}

func gateStateString(st ogm.OpenGameState) string {
	var ids []string
	for id, p := range st.Participants {
		ids = append(ids, fmt.Sprintf("%s:%v", id, p.IsReady))
	}
	sort.Strings(ids)
	return fmt.Sprintf("gc%d{%s}", st.GameCount, strings.Join(ids, ","))
}

func gateOutcome(evs []gateEvent) string {
	var parts []string
	for _, e := range evs {
		switch e.kind {
		case "cb":
			var ids []string
			for id, r := range e.parts {
				ids = append(ids, fmt.Sprintf("%s:%v", id, r))
			}
			sort.Strings(ids)
			parts = append(parts, fmt.Sprintf("cb(gc%d,%s)", e.gc, strings.Join(ids, ",")))
		case "ready-end":
			if e.err != "" {
				parts = append(parts, "err("+e.op.id+")")
			}
		}
	}
	return strings.Join(parts, " ")
}

func gateEventsString(evs []gateEvent) string {
	var parts []string
	for _, e := range evs {
		t := (e.vtime - vrt.Epoch*1e9) / 1e6
		switch e.kind {
		case "cb":
			parts = append(parts, fmt.Sprintf("[%dms] CALLBACK gc=%d parts=%v", t, e.gc, e.parts))
		default:
			s := fmt.Sprintf("[%dms] T%d %s %s", t, e.thread, e.kind, e.op)
			if e.err != "" {
				s += " -> " + e.err
			}
			parts = append(parts, s)
		}
	}
	return strings.Join(parts, "; ")
}

// oracle evaluates the C09 clauses on the recorded event list.
func (sc *gateScenario) oracle(evs []gateEvent) (string, string) {
	type gen struct {
		gc         int
		parts      []string
		startSeq   int
		endSeq     int
		startTime  int64
		endTime    int64
		callbacks  []int
		superseded int // seq of setup-end of the next generation, -1 if last
		supTime    int64
	}
	var gens []*gen
	for i, e := range evs {
		switch e.kind {
		case "setup-start":
			gens = append(gens, &gen{gc: e.op.gc, parts: e.op.parts, startSeq: i, startTime: e.vtime, endSeq: -1, superseded: -1})
		case "setup-end":
			g := gens[len(gens)-1]
			g.endSeq, g.endTime = i, e.vtime
			if len(gens) > 1 {
				p := gens[len(gens)-2]
				p.superseded, p.supTime = i, e.vtime
			}
		}
	}
	timeout := int64(sc.timeout) * 1e9
	byGC := map[int]*gen{}
	for _, g := range gens {
		byGC[g.gc] = g
	}
	// signalled(g, p, before): a Ready(p) call that returned nil, overlapping or following
	// g's set-up, started before event index `before`.
	signalled := func(g *gen, p string, before int) bool {
		for i, e := range evs {
			if e.kind != "ready-start" || e.op.id != p || i >= before {
				continue
			}
			// find its end
			end := len(evs)
			errs := ""
			for j := i + 1; j < len(evs); j++ {
				if evs[j].kind == "ready-end" && evs[j].thread == e.thread && evs[j].op.id == p {
					end = j
					errs = evs[j].err
					break
				}
			}
			if errs != "" {
				continue
			}
			if end > g.startSeq {
				return true
			}
		}
		return false
	}
	for i, e := range evs {
		if e.kind != "cb" {
			continue
		}
		g := byGC[e.gc]
		if g == nil {
			return "callback-unknown-gamecount", fmt.Sprintf("callback reports game count %d that no set-up established", e.gc)
		}
		g.callbacks = append(g.callbacks, i)
		// participants reported
		want := append([]string{}, g.parts...)
		sort.Strings(want)
		var got []string
		allReady := true
		for id, r := range e.parts {
			got = append(got, id)
			if !r {
				allReady = false
			}
		}
		sort.Strings(got)
		justifiedBySignals := true
		for _, p := range g.parts {
			if !signalled(g, p, i) {
				justifiedBySignals = false
			}
		}
		justifiedByTimeout := sc.timeout > 0 && e.vtime >= g.startTime+timeout
		if !justifiedBySignals && !justifiedByTimeout {
			return "fired-before-all-ready", fmt.Sprintf("callback for game count %d at +%dms although not every participant of that set-up had signalled and its timeout (%ds from +%dms) had not elapsed", e.gc, (e.vtime-vrt.Epoch*1e9)/1e6, sc.timeout, (g.startTime-vrt.Epoch*1e9)/1e6)
		}
		if strings.Join(want, ",") != strings.Join(got, ",") {
			return "callback-wrong-participants", fmt.Sprintf("callback for game count %d reports participants %v, set-up named %v", e.gc, got, want)
		}
		if !allReady {
			return "callback-not-all-ready", fmt.Sprintf("callback for game count %d reports a participant as not ready: %v", e.gc, e.parts)
		}
	}
	for gi, g := range gens {
		if len(g.callbacks) > 1 {
			return "fired-twice", fmt.Sprintf("set-up with game count %d fired %d times", g.gc, len(g.callbacks))
		}
		if gi == len(gens)-1 {
			if len(g.callbacks) == 0 && len(g.parts) > 0 {
				return "never-fired", fmt.Sprintf("the last set-up (game count %d) never fired although all timers were run to completion", g.gc)
			}
			continue
		}
		// superseded generation: certainly unfinished?
		unfinished := false
		for _, p := range g.parts {
			if !signalled(g, p, g.superseded) {
				unfinished = true
			}
		}
		if sc.timeout > 0 && g.supTime >= g.startTime+timeout {
			unfinished = false
		}
		if unfinished && len(g.callbacks) > 0 {
			return "superseded-fired", fmt.Sprintf("set-up with game count %d was superseded while unfinished but fired", g.gc)
		}
	}
	// unknown ids are rejected, known ids accepted
	for _, e := range evs {
		if e.kind != "ready-end" {
			continue
		}
		// known to some generation that could be current during the call?
		known := false
		for _, g := range gens {
			for _, p := range g.parts {
				if p == e.op.id {
					known = true
				}
			}
		}
		if !known && e.err == "" {
			return "unknown-accepted", fmt.Sprintf("Ready(%s) from an id no set-up ever named returned nil", e.op.id)
		}
		if known && len(gens) == 1 && e.err != "" {
			return "known-rejected", fmt.Sprintf("Ready(%s) returned %s", e.op.id, e.err)
		}
	}
	return "", ""
}

// gateRestore: sequential differential check of NewOpenGameManagerFromState.
func gateRestoreSuite(n int, timeout int) *Suite {
	ids := []string{"a", "b", "c"}[:n]
	name := fmt.Sprintf("gate/restore/n%d/t%d", n, timeout)
	return &Suite{Name: name, Bound: 0, Weight: 1, Run: func(prefix []int) *vrt.Exec {
		var viol, detail, outcome string
		res := vrt.Run(vrt.Config{Prefix: prefix, MaxSteps: 200000}, func(env *vrt.Env) {
			// signal sequence: every sequence of length <= n+1 over ids (with repeats) and split point
			seqLen := env.Choose(n+2, "seqlen")
			var seq []string
			for i := 0; i < seqLen; i++ {
				seq = append(seq, ids[env.Choose(n, "sig")])
			}
			split := env.Choose(seqLen+1, "split")
			mk := func(rec *[]string) ogm.OpenGameOption {
				return ogm.OpenGameOption{Timeout: timeout, OnOpenGameReady: func(st ogm.OpenGameState) {
					*rec = append(*rec, gateStateString(st))
				}}
			}
			drain := func(withTimers bool) {
				for {
					env.Settle()
					if !withTimers || env.PendingTimers() == 0 {
						return
					}
					env.AdvanceTimer()
				}
			}
			var recA, recB []string
			a := ogm.NewOpenGameManager(mk(&recA))
			a.Setup(3, partsMap(ids))
			for _, s := range seq[:split] {
				a.Ready(s)
			}
			drain(false)
			saved := a.GetState()
			// deep copy of the saved state (as a persisted snapshot would be)
			cp := ogm.OpenGameState{Timeout: saved.Timeout, GameCount: saved.GameCount, Participants: map[string]*ogm.OpenGameParticipant{}}
			for id, p := range saved.Participants {
				q := *p
				cp.Participants[id] = &q
			}
			firedBefore := len(recA)
			b := ogm.NewOpenGameManagerFromState(cp, mk(&recB))
			drain(false)
			if got, want := gateStateString(b.GetState()), gateStateString(cp); got != want && firedBefore == 0 {
				viol, detail = "restore-state-differs", fmt.Sprintf("restored state %s, saved state %s", got, want)
				return
			}
			for _, s := range seq[split:] {
				a.Ready(s)
				b.Ready(s)
			}
			// before any timer runs: the same signals must have taken both gates equally far (a rebuilt gate that
			// only fires at its timeout although everybody has signalled does not behave like the original)
			drain(false)
			if firedBefore == 0 && len(recA) != len(recB) {
				viol, detail = "restore-fires-at-another-moment", fmt.Sprintf("after the signals %v (gate saved and rebuilt after the first %d) and before any timeout the original has fired %d times, the rebuilt gate %d times: A=%v B=%v", seq, split, len(recA), len(recB), recA, recB)
				return
			}
			drain(true)
			outcome = fmt.Sprintf("seq=%v split=%d A=%v B=%v", seq, split, recA, recB)
			// the original fires once in total; the restored gate must fire iff the original had not fired before the snapshot
			wantB := 1
			if firedBefore > 0 {
				wantB = 0
				// a gate restored from an already completed state: all ready; firing again or not is not specified; accept 0 or 1
				if len(recB) <= 1 {
					return
				}
			}
			if len(recA) != 1 {
				viol, detail = "original-fired-count", outcome
				return
			}
			if len(recB) != wantB {
				viol, detail = "restore-fired-count", fmt.Sprintf("restored gate fired %d times, original (from the same point) %d: %s", len(recB), len(recA)-firedBefore, outcome)
				return
			}
			if wantB == 1 && recB[0] != recA[0] {
				viol, detail = "restore-callback-differs", outcome
				return
			}
			if ga, gb := gateStateString(a.GetState()), gateStateString(b.GetState()); ga != gb {
				viol, detail = "restore-final-state-differs", fmt.Sprintf("original %s restored %s (%s)", ga, gb, outcome)
			}
		})
		x := &vrt.Exec{Trace: res.Trace, Outcome: outcome, Violation: viol, Detail: detail}
		if res.ReplayError != "" || res.DriverPanic != "" {
			x.Fatal = res.ReplayError + res.DriverPanic
		}
		if res.Deadlock && viol == "" {
			x.Violation, x.Detail = "never-returns@restore", strings.Join(res.Parked, "; ")
		}
		return x
	}}
}

func gateScenarios(tier string) []*gateScenario {
	var out []*gateScenario
	rd := func(id string) gateOp { return gateOp{kind: "ready", id: id} }
	su := func(gc int, parts ...string) gateOp { return gateOp{kind: "setup", gc: gc, parts: parts} }
	all := []string{"a", "b", "c"}
	for n := 1; n <= 3; n++ {
		ids := all[:n]
		// A: one caller per participant
		var th [][]gateOp
		for _, id := range ids {
			th = append(th, []gateOp{rd(id)})
		}
		out = append(out, &gateScenario{name: fmt.Sprintf("plain/n%d", n), initial: ids, threads: th})
		// one participant withheld -> timeout path
		if n > 1 {
			out = append(out, &gateScenario{name: fmt.Sprintf("withheld/n%d", n), initial: ids, threads: th[:n-1]})
		}
		out = append(out, &gateScenario{name: fmt.Sprintf("none/n%d", n), initial: ids, threads: nil})
		// duplicate + unknown
		th2 := append([][]gateOp{}, th...)
		th2[0] = []gateOp{rd(ids[0]), rd(ids[0])}
		out = append(out, &gateScenario{name: fmt.Sprintf("dup/n%d", n), initial: ids, threads: th2})
		if n <= 2 {
			th3 := append([][]gateOp{}, th...)
			th3 = append(th3, []gateOp{rd("ghost")})
			out = append(out, &gateScenario{name: fmt.Sprintf("unknown/n%d", n), initial: ids, threads: th3})
			th4 := append([][]gateOp{}, th...)
			th4 = append(th4, []gateOp{rd(ids[0])})
			out = append(out, &gateScenario{name: fmt.Sprintf("dup-concurrent/n%d", n), initial: ids, threads: th4})
		}
		// B: re-set-up racing pending signals
		out = append(out, &gateScenario{name: fmt.Sprintf("resetup-same/n%d", n), initial: ids, threads: append(append([][]gateOp{}, th...), []gateOp{su(2, ids...)})})
		if n >= 2 {
			out = append(out, &gateScenario{name: fmt.Sprintf("resetup-shrink/n%d", n), initial: ids, threads: append(append([][]gateOp{}, th...), []gateOp{su(2, ids[:n-1]...)})})
			// signals for both generations from the same callers
			var thb [][]gateOp
			for _, id := range ids[:2] {
				thb = append(thb, []gateOp{rd(id), rd(id)})
			}
			thb = append(thb, []gateOp{su(2, ids[:2]...)})
			out = append(out, &gateScenario{name: fmt.Sprintf("resetup-resignal/n%d", n), initial: ids[:2], threads: thb})
		}
		// the new set-up names a different participant who takes over an index of the old one
		if n == 1 {
			out = append(out, &gateScenario{name: "resetup-replace/n1", initial: ids, threads: [][]gateOp{{rd("a")}, {su(2, "x")}}})
			out = append(out, &gateScenario{name: "resetup-replace-late-signal/n1", initial: ids, threads: [][]gateOp{{rd("a"), rd("a")}, {su(2, "x")}, {rd("x")}}})
		}
		if n == 2 {
			out = append(out, &gateScenario{name: "resetup-replace/n2", initial: ids, threads: [][]gateOp{{rd("a")}, {rd("b")}, {su(2, "x", "a")}}})
		}
		if n == 1 {
			out = append(out, &gateScenario{name: "resetup-twice/n1", initial: ids, threads: [][]gateOp{{rd("a"), rd("a")}, {su(2, "a"), su(3, "a")}}})
		}
	}
	for _, sc := range out {
		sc.timeout = 2
	}
	// no-timeout variants
	out = append(out, &gateScenario{name: "plain-notimeout/n2", initial: all[:2], threads: [][]gateOp{{rd("a")}, {rd("b")}}, timeout: 0})
	return out
}

func init() {
	register(&Check{
		ID:    "C09",
		Level: "model_checking",
		Rule:  "each scenario = a set-up plus 1..4 caller threads issuing Ready / Setup against the real open_game_manager+syncsaga+timebank under the controlled scheduler with the clock as a competitor; every schedule with at most `bound` preemptions/early timer firings is executed (switches at blocking points are free); an execution is non-trivial when its callback/return observation differs from the others'",
		Assumptions: []string{
			"scheduling points are the synchronisation operations (locks, channel operations, atomics, goroutine start, timer/context events); plain memory accesses between them are not interleaved in this harness",
			"timers follow pre-Go-1.23 semantics (channel capacity 1, Stop/Reset do not drain), as the modules declare go 1.18/1.19",
			"at most 3 participants and 4 caller threads; preemption bound as reported",
		},
		Suites: func(tier string) []*Suite {
			bound := 2
			if tier == "thorough" {
				bound = 3
			}
			var ss []*Suite
			for _, sc := range gateScenarios(tier) {
				sc := sc
				b := bound
				nth := len(sc.threads)
				if nth >= 4 && b > 2 {
					b = 2
				}
				ss = append(ss, &Suite{Name: "gate/" + sc.name, Bound: b, Chess: false, Run: sc.run, Weight: nth * nth})
			}
			for n := 1; n <= 3; n++ {
				ss = append(ss, gateRestoreSuite(n, 2))
			}
			return ss
		},
	})
}
