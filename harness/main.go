// vcheck: the model-checking harnesses for weedbox/pokertable.  Built by check.sh against
// an instrumented copy of /repo's current working tree.
package main

import (
	"crypto/sha1"
	"encoding/json"
	"flag"
	"fmt"
	"os"
	"os/exec"
	"path/filepath"
	"runtime"
	"runtime/pprof"
	"sort"
	"strconv"
	"strings"
	"time"

	"verif.local/vrt"
)

// Suite is one closed scenario family explored exhaustively within its bound.
type Suite struct {
	Name   string
	Bound  int
	Chess  bool
	Run    func(prefix []int) *vrt.Exec
	Weight int // rough cost, for load balancing
	// Direct suites do their own exhaustive enumeration (explicit-state search).
	Direct func(st *SuiteStats)
}

// SuiteStats is what a worker reports for one suite.
type SuiteStats struct {
	Name        string         `json:"name"`
	Execs       int            `json:"execs"`
	States      int            `json:"states"`
	Transitions int            `json:"transitions"`
	Outcomes    map[string]int `json:"outcomes"`
	Violations  []Violation    `json:"violations"`
	Capped      bool           `json:"capped"`
	Fatal       string         `json:"fatal"`
	Bound       int            `json:"bound"`
	MaxTrace    int            `json:"max_trace"`
	Samples     []string       `json:"samples"`
	WallS       float64        `json:"wall_s"`
	Notes       []string       `json:"notes"`
}

type Violation struct {
	Suite   string `json:"suite"`
	Clause  string `json:"clause"`
	Key     string `json:"key"` // finding key (clause + site), matched against known findings
	Detail  string `json:"detail"`
	Choices []int  `json:"choices"`
	Ops     string `json:"ops"`
}

type Check struct {
	ID          string
	Level       string
	Suites      func(tier string) []*Suite
	Assumptions []string
	Rule        string
}

var checks = map[string]*Check{}

// knownKeys: finding keys of the current property listed in known_findings.json. A monitor that hits
// one records it (so that the coordinator prints KNOWN-FINDING) and lets the execution continue, so
// that a listed finding never hides what lies behind it.
var diagNotes = map[string]int{} // diagnostics that are not clauses of the property being checked
var knownKeys = map[string]bool{}
var knownHits = map[string]*Violation{}

func hitKnown(key, detail string) bool {
	if !knownKeys[key] {
		return false
	}
	if _, ok := knownHits[key]; !ok {
		clause, k := splitKey(key)
		knownHits[key] = &Violation{Clause: clause, Key: k, Detail: detail}
	}
	return true
}

func register(c *Check) { checks[c.ID] = c }

var (
	out         *os.File
	verifDir    = "/verif"
	deadline    time.Time
	flagVerbose bool
)

func main() {
	prop := flag.String("prop", "", "property id")
	tier := flag.String("tier", "quick", "quick|thorough")
	evidence := flag.String("evidence", "", "evidence file to write")
	replay := flag.String("replay", "", "replay file")
	worker := flag.String("worker", "", "i/n: run the i-th share of the suites and print stats as JSON")
	only := flag.String("suite", "", "run only suites whose name contains this")
	budget := flag.Int("budget", 0, "wall-clock budget in seconds (internal deadline, exit 0 with exhaustive:false)")
	nworkers := flag.Int("j", 0, "worker processes")
	list := flag.Bool("list", false, "list suites")
	inproc := flag.Bool("inproc", false, "run the suites in this process and print their stats (debugging)")
	flag.BoolVar(&flagVerbose, "v", false, "verbose")
	flag.StringVar(&verifDir, "verif", "/verif", "verification directory")
	cpuprof := flag.String("cpuprofile", "", "write a CPU profile (with -inproc)")
	flag.Parse()
	out = vrt.Quiet()
	if *cpuprof != "" {
		f, _ := os.Create(*cpuprof)
		pprof.StartCPUProfile(f)
		defer pprof.StopCPUProfile()
	}
	if *replay != "" {
		os.Exit(doReplay(*replay))
	}
	c := checks[*prop]
	if c == nil {
		fmt.Fprintf(os.Stderr, "unknown property %q\n", *prop)
		os.Exit(2)
	}
	if *budget == 0 {
		if *tier == "quick" {
			*budget = 210
		} else {
			*budget = 900
		}
	}
	deadline = time.Now().Add(time.Duration(*budget) * time.Second)
	for _, k := range loadKnown().Findings {
		if k.Property == c.ID {
			knownKeys[k.Key] = true
		}
	}
	suites := c.Suites(*tier)
	if *only != "" {
		var f []*Suite
		for _, s := range suites {
			if strings.Contains(s.Name, *only) {
				f = append(f, s)
			}
		}
		suites = f
	}
	if *list {
		for _, s := range suites {
			fmt.Fprintln(out, s.Name)
		}
		return
	}
	if *inproc {
		for _, s := range suites {
			st := runSuite(s)
			fmt.Fprintf(out, "suite %s execs=%d states=%d trans=%d outcomes=%d viol=%d capped=%v fatal=%q %.1fs\n", st.Name, st.Execs, st.States, st.Transitions, len(st.Outcomes), len(st.Violations), st.Capped, st.Fatal, st.WallS)
			for _, v := range st.Violations {
				fmt.Fprintf(out, "  VIOL %s choices=%v\n    %s\n", v.Key, v.Choices, strings.ReplaceAll(v.Detail, "\n", "\n    "))
			}
		}
		pprof.StopCPUProfile()
		return
	}
	if *worker != "" {
		var i, n int
		fmt.Sscanf(*worker, "%d/%d", &i, &n)
		runWorker(suites, i, n)
		return
	}
	os.Exit(coordinate(c, *tier, suites, *evidence, *nworkers, *only))
}

func runSuite(s *Suite) *SuiteStats {
	t0 := time.Now()
	st := &SuiteStats{Name: s.Name, Outcomes: map[string]int{}, Bound: s.Bound}
	knownHits = map[string]*Violation{}
	diagNotes = map[string]int{}
	defer func() {
		for d, n := range diagNotes {
			st.Notes = append(st.Notes, fmt.Sprintf("%s: diagnostic (not a clause of this property), %d executions: %s", s.Name, n, d))
		}
		for _, v := range knownHits {
			v.Suite = s.Name
			st.Violations = append(st.Violations, *v)
		}
	}()
	if s.Direct != nil {
		s.Direct(st)
		st.WallS = time.Since(t0).Seconds()
		return st
	}
	ex := &vrt.Explorer{Run: s.Run, Bound: s.Bound, Chess: s.Chess, Deadline: deadline}
	seenV := map[string]bool{}
	ex.OnExec = func(prefix []int, x *vrt.Exec) {
		if len(st.Samples) < 2 || (x.Violation == "" && len(prefix) > 0 && len(st.Samples) < 3) {
			st.Samples = append(st.Samples, fmt.Sprintf("choices=%v outcome=%s", chosen(x.Trace), x.Outcome))
		}
	}
	ex.Explore(nil, 0)
	st.Execs = ex.Execs
	st.Transitions = ex.Points + ex.Execs
	st.States = len(ex.Outcomes)
	st.Outcomes = ex.Outcomes
	st.Capped = ex.Capped
	st.Fatal = ex.Fatal
	st.MaxTrace = ex.MaxTrace
	for _, f := range ex.Violations {
		key := f.Violation
		if seenV[key] {
			continue
		}
		seenV[key] = true
		clause, k := splitKey(f.Violation)
		st.Violations = append(st.Violations, Violation{Suite: s.Name, Clause: clause, Key: k, Detail: f.Detail, Choices: f.Choices})
	}
	st.WallS = time.Since(t0).Seconds()
	return st
}

// a harness reports a violation as "clause" or "clause@site"; the key is the whole string.
func splitKey(v string) (clause, key string) {
	if i := strings.Index(v, "@"); i >= 0 {
		return v[:i], v
	}
	return v, v
}

func chosen(tr []vrt.Choice) []int {
	o := make([]int, len(tr))
	for i, c := range tr {
		o[i] = c.Chosen
	}
	return o
}

func runWorker(suites []*Suite, i, n int) {
	enc := json.NewEncoder(out)
	var mine []*Suite
	for k, s := range suites {
		if k%n == i {
			mine = append(mine, s)
		}
	}
	// the worker's time budget is shared fairly: every suite may use an equal share of what is left
	end := deadline
	for k, s := range mine {
		left := time.Until(end)
		if left < 0 {
			left = 0
		}
		deadline = time.Now().Add(left / time.Duration(len(mine)-k))
		st := runSuite(s)
		enc.Encode(st)
	}
}

type knownFinding struct {
	Property string `json:"property"`
	Key      string `json:"key"`
	What     string `json:"what"`
}

type knownFile struct {
	Findings []knownFinding `json:"findings"`
	Fixed    []string       `json:"fixed"`
}

func loadKnown() *knownFile {
	var k knownFile
	data, err := os.ReadFile(filepath.Join(verifDir, "known_findings.json"))
	if err == nil {
		json.Unmarshal(data, &k)
	}
	return &k
}

func coordinate(c *Check, tier string, suites []*Suite, evidence string, nw int, only string) int {
	t0 := time.Now()
	if nw == 0 {
		nw = runtime.NumCPU()
		if j, err := strconv.Atoi(os.Getenv("VERIF_JOBS")); err == nil && j > 0 {
			nw = j
		}
	}
	if nw > len(suites) {
		nw = len(suites)
	}
	if nw < 1 {
		nw = 1
	}
	// heavier suites first so that shares are balanced
	sort.SliceStable(suites, func(i, j int) bool { return suites[i].Weight > suites[j].Weight })
	self, _ := os.Executable()
	type res struct {
		stats []*SuiteStats
		err   string
	}
	results := make(chan res, nw)
	remaining := int(time.Until(deadline).Seconds())
	for i := 0; i < nw; i++ {
		go func(i int) {
			args := []string{"-prop", c.ID, "-tier", tier, "-worker", fmt.Sprintf("%d/%d", i, nw), "-budget", strconv.Itoa(remaining), "-verif", verifDir}
			if only != "" {
				args = append(args, "-suite", only)
			}
			cmd := exec.Command(self, args...)
			cmd.Env = append(os.Environ(), "GOMAXPROCS=2")
			var stderr strings.Builder
			cmd.Stderr = &stderr
			data, err := cmd.Output()
			var r res
			dec := json.NewDecoder(strings.NewReader(string(data)))
			for dec.More() {
				var st SuiteStats
				if e := dec.Decode(&st); e != nil {
					r.err = "bad worker output: " + e.Error()
					break
				}
				r.stats = append(r.stats, &st)
			}
			if err != nil {
				tail := stderr.String()
				if len(tail) > 3000 {
					tail = tail[len(tail)-3000:]
				}
				r.err = fmt.Sprintf("worker %d: %v\n%s", i, err, tail)
			}
			results <- r
		}(i)
	}
	var all []*SuiteStats
	var errs []string
	for i := 0; i < nw; i++ {
		r := <-results
		all = append(all, r.stats...)
		if r.err != "" {
			errs = append(errs, r.err)
		}
	}
	sort.Slice(all, func(i, j int) bool { return all[i].Name < all[j].Name })
	known := loadKnown()
	exit := 0
	total := &SuiteStats{Outcomes: map[string]int{}}
	var samples []any
	var notes []string
	capped := false
	nviol := 0
	reportedKnown := map[string]bool{}
	for _, st := range all {
		total.Execs += st.Execs
		total.States += st.States
		total.Transitions += st.Transitions
		if st.Capped {
			capped = true
		}
		if st.Fatal != "" {
			errs = append(errs, st.Name+": "+st.Fatal)
		}
		for o, n := range st.Outcomes {
			total.Outcomes[o] += n
		}
		if len(st.Samples) > 0 && len(samples) < 12 {
			samples = append(samples, map[string]any{"suite": st.Name, "case": st.Samples[0]})
		}
		notes = append(notes, st.Notes...)
		if flagVerbose {
			fmt.Fprintf(out, "  suite %-50s execs=%d states=%d trans=%d outcomes=%d viol=%d capped=%v %.1fs\n", st.Name, st.Execs, st.States, st.Transitions, len(st.Outcomes), len(st.Violations), st.Capped, st.WallS)
		}
		for _, v := range st.Violations {
			isKnown := false
			for _, k := range known.Findings {
				if k.Property == c.ID && k.Key == v.Key {
					isKnown = true
					if !reportedKnown[k.Key] {
						reportedKnown[k.Key] = true
						fmt.Fprintf(out, "KNOWN-FINDING: property=%s %s\n", c.ID, k.What)
					}
				}
			}
			if isKnown {
				continue
			}
			nviol++
			path := writeReplay(c.ID, tier, v)
			fmt.Fprintf(out, "VIOLATION property=%s replay=%s\n", c.ID, path)
			fmt.Fprintf(out, "  suite=%s clause=%s\n  %s\n", v.Suite, v.Key, strings.ReplaceAll(v.Detail, "\n", "\n  "))
			exit = 1
		}
	}
	if len(errs) > 0 {
		for _, e := range errs {
			fmt.Fprintf(out, "HARNESS-ERROR: %s\n", e)
		}
		if exit == 0 {
			exit = 2
		}
	}
	wall := time.Since(t0).Seconds()
	if evidence != "" && exit != 2 {
		seed, _ := strconv.Atoi(os.Getenv("VERIF_SEED"))
		if len(samples) == 0 {
			samples = append(samples, "none")
		}
		cov := map[string]any{
			"states":                        max(total.States, 1),
			"transitions":                   max(total.Transitions, 1),
			"traces_validated_against_impl": total.Execs,
			"evaluations":                   total.Execs,
			"distinct_nontrivial":           len(total.Outcomes),
			"rule":                          c.Rule,
			"samples":                       samples,
			"exhaustive":                    !capped,
			"suites":                        len(all),
			"caps_hit":                      capped,
			"known_findings_reported":       len(reportedKnown),
			"notes":                         notes,
		}
		ev := map[string]any{
			"property_id": c.ID,
			"tier":        tier,
			"seed":        seed,
			"level":       c.Level,
			"coverage":    cov,
			"assumptions": c.Assumptions,
			"wall_s":      wall,
			"violations":  nviol,
		}
		data, _ := json.MarshalIndent(ev, "", " ")
		os.MkdirAll(filepath.Dir(evidence), 0o755)
		os.WriteFile(evidence, data, 0o644)
	}
	fmt.Fprintf(out, "%s %s: suites=%d executions=%d states=%d transitions=%d outcomes=%d exhaustive=%v violations=%d wall=%.1fs\n",
		c.ID, tier, len(all), total.Execs, total.States, total.Transitions, len(total.Outcomes), !capped, nviol, wall)
	return exit
}

type replayFile struct {
	Property string `json:"property"`
	Tier     string `json:"tier"`
	Suite    string `json:"suite"`
	Clause   string `json:"clause"`
	Detail   string `json:"detail"`
	Choices  []int  `json:"choices"`
	Ops      string `json:"ops,omitempty"`
}

func writeReplay(id, tier string, v Violation) string {
	rf := replayFile{Property: id, Tier: tier, Suite: v.Suite, Clause: v.Key, Detail: v.Detail, Choices: v.Choices, Ops: v.Ops}
	data, _ := json.MarshalIndent(rf, "", " ")
	h := sha1.Sum(data)
	dir := filepath.Join(verifDir, "replays")
	os.MkdirAll(dir, 0o755)
	path := filepath.Join(dir, fmt.Sprintf("%s-%x.json", id, h[:5]))
	os.WriteFile(path, data, 0o644)
	return path
}

func doReplay(path string) int {
	data, err := os.ReadFile(path)
	if err != nil {
		fmt.Fprintln(os.Stderr, err)
		return 2
	}
	var rf replayFile
	if err := json.Unmarshal(data, &rf); err != nil {
		fmt.Fprintln(os.Stderr, err)
		return 2
	}
	c := checks[rf.Property]
	if c == nil {
		fmt.Fprintln(os.Stderr, "unknown property", rf.Property)
		return 2
	}
	deadline = time.Now().Add(time.Hour)
	for _, tier := range []string{rf.Tier, "quick", "thorough"} {
		for _, s := range c.Suites(tier) {
			if s.Name != rf.Suite {
				continue
			}
			if s.Run == nil {
				fmt.Fprintf(out, "suite %s is an explicit-state search; replaying runs its operation list:\n%s\n", s.Name, rf.Ops)
				st := &SuiteStats{Outcomes: map[string]int{}}
				s.Direct(st)
				for _, v := range st.Violations {
					if v.Key == rf.Clause {
						fmt.Fprintf(out, "VIOLATION property=%s replay=%s\n  %s\n", rf.Property, path, v.Detail)
						return 1
					}
				}
				fmt.Fprintln(out, "not reproduced")
				return 0
			}
			x := s.Run(rf.Choices)
			for i, ch := range x.Trace {
				fmt.Fprintf(out, "  [%d] %c %d/%d %s\n", i, ch.Kind, ch.Chosen, ch.N, ch.Label)
			}
			fmt.Fprintf(out, "outcome: %s\n", x.Outcome)
			if x.Violation != "" {
				fmt.Fprintf(out, "VIOLATION property=%s replay=%s\n  clause=%s\n  %s\n", rf.Property, path, x.Violation, x.Detail)
				return 1
			}
			fmt.Fprintln(out, "no violation on this tree")
			return 0
		}
	}
	fmt.Fprintln(os.Stderr, "suite not found:", rf.Suite)
	return 2
}
