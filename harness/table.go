package main

// Table driver shared by the TABLE / HAND harnesses: a real table engine with a decorated
// game backend (constructed decks, call log, fault injection), recorded callbacks, and helpers
// that answer the hand's pending requests at quiescent points.

import (
	"errors"
	"fmt"
	"sort"
	"strings"

	"github.com/weedbox/pokerface"
	pt "github.com/weedbox/pokertable"
	"verif.local/vrt"
)

// ---------------------------------------------------------------------------------------------
// backend decorator

type beCall struct {
	Kind    string
	Ordinal int // over all calls of the hand
	KindOrd int // among calls of this kind in the hand
	Err     string
	Hand    int
}

type backend struct {
	inner    pt.GameBackend
	deckKind string // asc desc tie top2tie plain
	calls    []beCall
	hand     int
	applied  int // backend calls that returned a new state
	perKind  map[string]int
	handOrd  int
	// fail decides whether call (kind, ordinal in hand, ordinal of kind in hand) of hand h fails
	fail func(h int, kind string, ord, kindOrd int) bool
}

var errInjected = errors.New("injected backend failure")

func newBackend(deckKind string) *backend {
	return &backend{inner: pt.NewNativeGameBackend(), deckKind: deckKind, perKind: map[string]int{}}
}

func (b *backend) pre(kind string) error {
	c := beCall{Kind: kind, Ordinal: b.handOrd, KindOrd: b.perKind[kind], Hand: b.hand}
	b.handOrd++
	b.perKind[kind]++
	if b.fail != nil && b.fail(c.Hand, c.Kind, c.Ordinal, c.KindOrd) {
		c.Err = errInjected.Error()
		b.calls = append(b.calls, c)
		return errInjected
	}
	b.calls = append(b.calls, c)
	return nil
}

func (b *backend) done(gs *pokerface.GameState, err error) (*pokerface.GameState, error) {
	if err == nil {
		b.applied++
	} else if len(b.calls) > 0 {
		b.calls[len(b.calls)-1].Err = err.Error()
	}
	return gs, err
}

func cardsFor(n int, kind string, holeCount int) []string {
	// default-rule deck: hole cards for players 0..n-1 (2 each), burn, flop(3), burn, turn, burn, river, rest
	if holeCount != 2 || n > 8 {
		return nil
	}
	pairRanks := []string{"3", "4", "5", "6", "8", "T", "Q", "A"}
	board := []string{"S2", "D7", "H9", "CJ", "DK"}
	var holes [][]string
	switch kind {
	case "tie":
		board = []string{"SA", "SK", "SQ", "SJ", "ST"} // royal flush on board: everybody ties
		low := [][]string{{"H2", "D3"}, {"H4", "D5"}, {"H6", "D7"}, {"H8", "D9"}, {"C2", "C3"}, {"C4", "C5"}, {"C6", "C7"}, {"C8", "C9"}}
		holes = low[:n]
	case "desc":
		for i := 0; i < n; i++ {
			r := pairRanks[len(pairRanks)-1-i]
			holes = append(holes, []string{"H" + r, "C" + r})
		}
	case "top2tie":
		// players 0 and 1 tie with the best hand (same pocket ranks in different suits cannot both pair: use A-Q vs A-Q high)
		board = []string{"S2", "D7", "H9", "CJ", "DK"}
		holes = append(holes, []string{"HA", "HQ"}, []string{"CA", "CQ"})
		for i := 2; i < n; i++ {
			holes = append(holes, []string{"H" + pairRanks[0][:1], "D" + []string{"4", "5", "6", "8", "T", "3"}[i-2]})
		}
	default: // asc: the last player has the best hand
		for i := 0; i < n; i++ {
			r := pairRanks[i]
			holes = append(holes, []string{"H" + r, "C" + r})
		}
	}
	used := map[string]bool{}
	var deck []string
	for _, h := range holes {
		for _, c := range h {
			deck = append(deck, c)
			used[c] = true
		}
	}
	for _, c := range board {
		used[c] = true
	}
	var rest []string
	for _, c := range pokerface.NewStandardDeckCards() {
		if !used[c] {
			rest = append(rest, c)
		}
	}
	take := func() string { c := rest[0]; rest = rest[1:]; return c }
	deck = append(deck, take())
	deck = append(deck, board[0], board[1], board[2])
	deck = append(deck, take(), board[3], take(), board[4])
	deck = append(deck, rest...)
	return deck
}

func (b *backend) CreateGame(opts *pokerface.GameOptions) (*pokerface.GameState, error) {
	b.hand++
	b.handOrd = 0
	b.perKind = map[string]int{}
	if err := b.pre("CreateGame"); err != nil {
		return nil, err
	}
	gs, err := b.inner.CreateGame(opts)
	if err != nil {
		return gs, err
	}
	// the native engine shuffles with an uncontrolled generator: replace the deck (no card is dealt yet)
	if d := cardsFor(len(gs.Players), b.deckKind, gs.Meta.HoleCardsCount); d != nil && len(d) == len(gs.Meta.Deck) && b.deckKind != "plain" {
		gs.Meta.Deck = d
	} else {
		d := append([]string{}, gs.Meta.Deck...)
		sort.Strings(d)
		gs.Meta.Deck = d
	}
	gs.GameID = fmt.Sprintf("game-%d", b.hand)
	b.applied++
	return gs, nil
}

func (b *backend) ReadyForAll(gs *pokerface.GameState) (*pokerface.GameState, error) {
	if err := b.pre("ReadyForAll"); err != nil {
		return nil, err
	}
	return b.done(b.inner.ReadyForAll(gs))
}
func (b *backend) PayAnte(gs *pokerface.GameState) (*pokerface.GameState, error) {
	if err := b.pre("PayAnte"); err != nil {
		return nil, err
	}
	return b.done(b.inner.PayAnte(gs))
}
func (b *backend) PayBlinds(gs *pokerface.GameState) (*pokerface.GameState, error) {
	if err := b.pre("PayBlinds"); err != nil {
		return nil, err
	}
	return b.done(b.inner.PayBlinds(gs))
}
func (b *backend) Next(gs *pokerface.GameState) (*pokerface.GameState, error) {
	if err := b.pre("Next"); err != nil {
		return nil, err
	}
	return b.done(b.inner.Next(gs))
}
func (b *backend) Pay(gs *pokerface.GameState, chips int64) (*pokerface.GameState, error) {
	if err := b.pre("Pay"); err != nil {
		return nil, err
	}
	return b.done(b.inner.Pay(gs, chips))
}
func (b *backend) Fold(gs *pokerface.GameState) (*pokerface.GameState, error) {
	if err := b.pre("Fold"); err != nil {
		return nil, err
	}
	return b.done(b.inner.Fold(gs))
}
func (b *backend) Check(gs *pokerface.GameState) (*pokerface.GameState, error) {
	if err := b.pre("Check"); err != nil {
		return nil, err
	}
	return b.done(b.inner.Check(gs))
}
func (b *backend) Call(gs *pokerface.GameState) (*pokerface.GameState, error) {
	if err := b.pre("Call"); err != nil {
		return nil, err
	}
	return b.done(b.inner.Call(gs))
}
func (b *backend) Allin(gs *pokerface.GameState) (*pokerface.GameState, error) {
	if err := b.pre("Allin"); err != nil {
		return nil, err
	}
	return b.done(b.inner.Allin(gs))
}
func (b *backend) Bet(gs *pokerface.GameState, chips int64) (*pokerface.GameState, error) {
	if err := b.pre("Bet"); err != nil {
		return nil, err
	}
	return b.done(b.inner.Bet(gs, chips))
}
func (b *backend) Raise(gs *pokerface.GameState, chipLevel int64) (*pokerface.GameState, error) {
	if err := b.pre("Raise"); err != nil {
		return nil, err
	}
	return b.done(b.inner.Raise(gs, chipLevel))
}
func (b *backend) Pass(gs *pokerface.GameState) (*pokerface.GameState, error) {
	if err := b.pre("Pass"); err != nil {
		return nil, err
	}
	return b.done(b.inner.Pass(gs))
}

// ---------------------------------------------------------------------------------------------
// driver

type TableCfg struct {
	Seats       int
	Mode        string
	Rule        string
	MinPlayers  int
	ActionTime  int
	Blind       pt.TableBlindState
	Interval    int // GameContinueInterval
	Deck        string
	Join        []pt.JoinPlayer // CreateTable join players
	ID          string
	MaxDuration int // seconds; 0 = beyond every horizon
}

type Snap struct {
	T     *pt.Table
	JSON  string
	VTime int64
	Seq   int
}

type ActionEv struct {
	A   pt.TablePlayerGameAction
	Seq int
}

type TD struct {
	env      *vrt.Env
	te       pt.TableEngine
	be       *backend
	cfg      TableCfg
	snaps    []*Snap
	actions  []ActionEv
	errs     []string
	stateEvs []string
	seq      int
	log      []string
	autoEnd  int
	// response tracking for the current request point
	reqKey    string
	responded map[string]bool
	finished  map[string]bool // settlement-finish signals sent for finGame
	finGame   int
	// hooks for monitors
	onSnap     func(s *Snap)
	firstSetup func(gc int, parts map[string]int)
	memos      map[string]string
}

func cloneTable(t *pt.Table) (*pt.Table, string) {
	return deepCopy(t), ""
}

// jsonOf renders a snapshot (lazily; most monitors never need it).
func (s *Snap) Text() string {
	if s.JSON == "" {
		s.JSON, _ = s.T.GetJSON()
	}
	return s.JSON
}

func defaultCfg(seats int) TableCfg {
	return TableCfg{Seats: seats, Mode: pt.CompetitionMode_CT, Rule: pt.CompetitionRule_Default, MinPlayers: 2, ActionTime: 10,
		Blind: pt.TableBlindState{Level: 1, Ante: 0, Dealer: 0, SB: 1, BB: 2}, Interval: 1, Deck: "asc"}
}

func (td *TD) callbacks() *pt.TableEngineCallbacks {
	env := td.env
	cb := pt.NewTableEngineCallbacks()
	cb.OnTableUpdated = func(t *pt.Table) {
		c, js := cloneTable(t)
		td.seq++
		s := &Snap{T: c, JSON: js, VTime: env.Now(), Seq: td.seq}
		td.snaps = append(td.snaps, s)
		if td.onSnap != nil {
			td.onSnap(s)
		}
	}
	cb.OnTableErrorUpdated = func(t *pt.Table, err error) {
		td.errs = append(td.errs, err.Error())
	}
	cb.OnTableStateUpdated = func(ev string, t *pt.Table) {
		td.stateEvs = append(td.stateEvs, ev+":"+string(t.State.Status))
	}
	cb.OnGamePlayerActionUpdated = func(a pt.TablePlayerGameAction) {
		td.seq++
		td.actions = append(td.actions, ActionEv{A: a, Seq: td.seq})
	}
	cb.OnAutoGameOpenEnd = func(c, t string) { td.autoEnd++ }
	cb.OnReadyOpenFirstTableGame = func(c, t string, gameCount int, players []*pt.TablePlayerState) {
		parts := map[string]int{}
		for i, p := range players {
			parts[p.PlayerID] = i
		}
		td.firstSetup(gameCount, parts)
	}
	return cb
}

func tableSetting(cfg TableCfg) pt.TableSetting {
	id := cfg.ID
	if id == "" {
		id = "T1"
	}
	return pt.TableSetting{
		TableID: id,
		Meta: pt.TableMeta{CompetitionID: "C1", Rule: cfg.Rule, Mode: cfg.Mode, MaxDuration: maxDur(cfg), TableMaxSeatCount: cfg.Seats,
			TableMinPlayerCount: cfg.MinPlayers, MinChipUnit: 1, ActionTime: cfg.ActionTime},
		Blind:       cfg.Blind,
		JoinPlayers: cfg.Join,
	}
}

func maxDur(cfg TableCfg) int {
	if cfg.MaxDuration > 0 {
		return cfg.MaxDuration
	}
	return 1 << 28
}

func newTD(env *vrt.Env, cfg TableCfg) (*TD, error) {
	td := &TD{env: env, cfg: cfg, be: newBackend(cfg.Deck), responded: map[string]bool{}, finished: map[string]bool{}}
	opts := pt.NewTableEngineOptions()
	opts.GameContinueInterval = cfg.Interval
	td.te = pt.NewTableEngine(opts, pt.WithGameBackend(td.be))
	cb := td.callbacks()
	td.te.OnTableUpdated(cb.OnTableUpdated)
	td.te.OnTableErrorUpdated(cb.OnTableErrorUpdated)
	td.te.OnTableStateUpdated(cb.OnTableStateUpdated)
	td.te.OnGamePlayerActionUpdated(cb.OnGamePlayerActionUpdated)
	td.te.OnAutoGameOpenEnd(cb.OnAutoGameOpenEnd)
	td.te.OnReadyOpenFirstTableGame(cb.OnReadyOpenFirstTableGame)
	td.firstSetup = func(gc int, parts map[string]int) { td.te.SetUpTableGame(gc, parts) }
	_, err := td.te.CreateTable(tableSetting(cfg))
	return td, err
}

// newTDManaged creates the table through a Manager (which installs its own native backend).
func newTDManaged(env *vrt.Env, cfg TableCfg, m pt.Manager) (*TD, error) {
	td := &TD{env: env, cfg: cfg, be: newBackend(cfg.Deck), responded: map[string]bool{}, finished: map[string]bool{}}
	opts := pt.NewTableEngineOptions()
	opts.GameContinueInterval = cfg.Interval
	setting := tableSetting(cfg)
	td.firstSetup = func(gc int, parts map[string]int) { m.SetUpTableGame(setting.TableID, gc, parts) }
	_, err := m.CreateTable(opts, td.callbacks(), setting)
	if err != nil {
		return td, err
	}
	td.te, err = m.GetTableEngine(setting.TableID)
	return td, err
}

// newTDManagedLazy creates the table through a Manager without looking the engine up (td.te stays nil
// until the caller resolves it).
func newTDManagedLazy(env *vrt.Env, cfg TableCfg, m pt.Manager) (*TD, error) {
	td := &TD{env: env, cfg: cfg, be: newBackend(cfg.Deck), responded: map[string]bool{}, finished: map[string]bool{}}
	opts := pt.NewTableEngineOptions()
	opts.GameContinueInterval = cfg.Interval
	setting := tableSetting(cfg)
	td.firstSetup = func(gc int, parts map[string]int) { m.SetUpTableGame(setting.TableID, gc, parts) }
	_, err := m.CreateTable(opts, td.callbacks(), setting)
	return td, err
}

// memo caches a value computed once per table driver.
func (td *TD) memo(key string, f func() string) string {
	if td.memos == nil {
		td.memos = map[string]string{}
	}
	if v, ok := td.memos[key]; ok {
		return v
	}
	v := f()
	td.memos[key] = v
	return v
}

func (td *TD) logf(f string, a ...any) { td.log = append(td.log, fmt.Sprintf(f, a...)) }

func (td *TD) table() *pt.Table { return td.te.GetTable() }

func (td *TD) player(id string) *pt.TablePlayerState {
	for _, p := range td.table().State.PlayerStates {
		if p.PlayerID == id {
			return p
		}
	}
	return nil
}

func (td *TD) reserve(id string, seat int, chips int64) error {
	err := td.te.PlayerReserve(pt.JoinPlayer{PlayerID: id, RedeemChips: chips, Seat: seat})
	td.logf("reserve(%s,seat=%d,%d)->%v", id, seat, chips, err)
	return err
}
func (td *TD) join(id string) error {
	err := td.te.PlayerJoin(id)
	td.logf("join(%s)->%v", id, err)
	return err
}
func (td *TD) leave(ids ...string) error {
	err := td.te.PlayersLeave(ids)
	td.logf("leave(%v)->%v", ids, err)
	return err
}
func (td *TD) addon(id string, chips int64) error {
	err := td.te.PlayerRedeemChips(pt.JoinPlayer{PlayerID: id, RedeemChips: chips})
	td.logf("addon(%s,%d)->%v", id, chips, err)
	return err
}
func (td *TD) start() error {
	err := td.te.StartTableGame()
	td.logf("start->%v", err)
	return err
}

// seatIn reserves + joins players at the given seats with the given stacks.
func (td *TD) seatIn(ids []string, seats []int, chips []int64) error {
	for i, id := range ids {
		if err := td.reserve(id, seats[i], chips[i]); err != nil {
			return err
		}
		if err := td.join(id); err != nil {
			return err
		}
	}
	return nil
}

// ---- pending request analysis ------------------------------------------------------------------

type Pending struct {
	Kind    string   // "", "ready", "ante", "blinds", "wager", "finish"
	Players []string // ids asked (ready/ante/blinds: not yet answered; wager: the current player)
	GS      *pokerface.GameState
	Event   string
}

func (td *TD) idOfGameIdx(t *pt.Table, gi int) string {
	if gi < 0 || gi >= len(t.State.GamePlayerIndexes) {
		return ""
	}
	pi := t.State.GamePlayerIndexes[gi]
	if pi < 0 || pi >= len(t.State.PlayerStates) {
		return ""
	}
	return t.State.PlayerStates[pi].PlayerID
}

func hasStr(xs []string, x string) bool {
	for _, y := range xs {
		if x == y {
			return true
		}
	}
	return false
}

var wagerKinds = []string{"fold", "check", "call", "bet", "raise", "allin", "pass"}

func (td *TD) pending() Pending {
	t := td.table()
	st := t.State
	if st.Status != pt.TableStateStatus_TableGamePlaying || st.GameState == nil {
		return Pending{}
	}
	gs := st.GameState
	key := fmt.Sprintf("%d/%s/%s/%d", st.GameCount, gs.Status.Round, gs.Status.CurrentEvent, td.be.handOrd)
	if key != td.reqKey {
		td.reqKey = key
		td.responded = map[string]bool{}
	}
	p := Pending{GS: gs, Event: gs.Status.CurrentEvent}
	switch gs.Status.CurrentEvent {
	case "ReadyRequested":
		p.Kind = "ready"
		for _, pl := range gs.Players {
			id := td.idOfGameIdx(t, pl.Idx)
			if hasStr(pl.AllowedActions, "ready") && !td.responded[id] {
				p.Players = append(p.Players, id)
			}
		}
	case "AnteRequested":
		p.Kind = "ante"
		for _, pl := range gs.Players {
			id := td.idOfGameIdx(t, pl.Idx)
			if hasStr(pl.AllowedActions, "pay") && !td.responded[id] {
				p.Players = append(p.Players, id)
			}
		}
	case "BlindsRequested":
		p.Kind = "blinds"
		for _, pl := range gs.Players {
			id := td.idOfGameIdx(t, pl.Idx)
			if hasStr(pl.AllowedActions, "pay") && !td.responded[id] {
				p.Players = append(p.Players, id)
			}
		}
	default:
		cp := gs.GetPlayer(gs.Status.CurrentPlayer)
		if cp != nil && len(cp.AllowedActions) > 0 && gs.Status.CurrentEvent == "RoundStarted" {
			for _, a := range cp.AllowedActions {
				if hasStr(wagerKinds, a) {
					p.Kind = "wager"
					p.Players = []string{td.idOfGameIdx(t, cp.Idx)}
					break
				}
			}
		}
	}
	if len(p.Players) == 0 {
		p.Kind = ""
	}
	return p
}

// blindOf returns what the player at game index gi owes at the blind request.
func blindOf(gs *pokerface.GameState, gi int) int64 {
	if gs.HasPosition(gi, "bb") && gs.Meta.Blind.BB > 0 {
		return gs.Meta.Blind.BB
	}
	if gs.HasPosition(gi, "sb") && gs.Meta.Blind.SB > 0 {
		return gs.Meta.Blind.SB
	}
	return gs.Meta.Blind.Dealer
}

// respondOne answers a ready/ante/blind request for id.
func (td *TD) respondOne(p Pending, id string) error {
	var err error
	switch p.Kind {
	case "ready":
		err = td.te.PlayerReady(id)
	case "ante":
		err = td.te.PlayerPay(id, p.GS.Meta.Ante)
	case "blinds":
		gi := td.table().FindGamePlayerIdx(id)
		err = td.te.PlayerPay(id, blindOf(p.GS, gi))
	}
	td.responded[id] = true
	td.logf("%s(%s)->%v", p.Kind, id, err)
	return err
}

// act submits a wager action for id.
func (td *TD) act(id, kind string, amount int64) error {
	var err error
	switch kind {
	case "fold":
		err = td.te.PlayerFold(id)
	case "check":
		err = td.te.PlayerCheck(id)
	case "call":
		err = td.te.PlayerCall(id)
	case "allin":
		err = td.te.PlayerAllin(id)
	case "bet":
		err = td.te.PlayerBet(id, amount)
	case "raise":
		err = td.te.PlayerRaise(id, amount)
	case "pass":
		err = td.te.PlayerPass(id)
	case "ready":
		err = td.te.PlayerReady(id)
	case "pay":
		err = td.te.PlayerPay(id, amount)
	default:
		panic("unknown action " + kind)
	}
	td.logf("%s(%s,%d)->%v", kind, id, amount, err)
	return err
}

// Line decides the wager action of the current player.
type Line func(td *TD, gs *pokerface.GameState, cp *pokerface.PlayerState) (string, int64)

func lineFoldOut(td *TD, gs *pokerface.GameState, cp *pokerface.PlayerState) (string, int64) {
	switch {
	case hasStr(cp.AllowedActions, "pass"):
		return "pass", 0
	case hasStr(cp.AllowedActions, "fold"):
		return "fold", 0
	case hasStr(cp.AllowedActions, "check"):
		return "check", 0
	}
	return cp.AllowedActions[0], 0
}

func lineCheckDown(td *TD, gs *pokerface.GameState, cp *pokerface.PlayerState) (string, int64) {
	switch {
	case hasStr(cp.AllowedActions, "pass"):
		return "pass", 0
	case hasStr(cp.AllowedActions, "check"):
		return "check", 0
	case hasStr(cp.AllowedActions, "call"):
		return "call", 0
	case hasStr(cp.AllowedActions, "allin"):
		return "allin", 0
	}
	return cp.AllowedActions[0], 0
}

// lineRaiseCallFold: pre-flop the first player to act raises the minimum, the next one calls, a player facing the
// raise after that folds (three-handed: the big blind's fold closes the round and two players go on); later
// rounds are checked down.
func lineRaiseCallFold(td *TD, gs *pokerface.GameState, cp *pokerface.PlayerState) (string, int64) {
	if hasStr(cp.AllowedActions, "pass") {
		return "pass", 0
	}
	if gs.Status.Round == "preflop" {
		acted := 0
		for _, p := range gs.Players {
			if p.Acted {
				acted++
			}
		}
		switch {
		case acted == 0 && hasStr(cp.AllowedActions, "raise"):
			return "raise", gs.Status.CurrentWager + gs.Status.PreviousRaiseSize
		case acted == 1 && hasStr(cp.AllowedActions, "call"):
			return "call", 0
		case acted >= 2 && hasStr(cp.AllowedActions, "fold"):
			return "fold", 0
		}
	}
	return lineCheckDown(td, gs, cp)
}

func lineAllIn(td *TD, gs *pokerface.GameState, cp *pokerface.PlayerState) (string, int64) {
	switch {
	case hasStr(cp.AllowedActions, "pass"):
		return "pass", 0
	case hasStr(cp.AllowedActions, "allin"):
		return "allin", 0
	}
	return cp.AllowedActions[0], 0
}

// wagerMenu lists (action, amount) pairs for the current player: every allowed kind with a small
// amount menu for bet / raise (minimum, minimum+1, just below the stack).
func wagerMenu(gs *pokerface.GameState, cp *pokerface.PlayerState) [][2]any {
	var m [][2]any
	for _, a := range cp.AllowedActions {
		switch a {
		case "bet":
			lo := gs.Status.MiniBet
			m = append(m, [2]any{"bet", lo})
			if cp.InitialStackSize-1 > lo {
				m = append(m, [2]any{"bet", cp.InitialStackSize - 1})
			}
		case "raise":
			lo := gs.Status.CurrentWager + gs.Status.PreviousRaiseSize
			if lo <= gs.Status.CurrentWager {
				lo = gs.Status.CurrentWager + gs.Status.MiniBet
			}
			if lo < cp.InitialStackSize {
				m = append(m, [2]any{"raise", lo})
			}
			if cp.InitialStackSize-1 > lo {
				m = append(m, [2]any{"raise", cp.InitialStackSize - 1})
			}
		case "fold", "check", "call", "allin", "pass":
			m = append(m, [2]any{a, int64(0)})
		}
	}
	return m
}

func lineExplore(td *TD, gs *pokerface.GameState, cp *pokerface.PlayerState) (string, int64) {
	m := wagerMenu(gs, cp)
	if len(m) == 0 {
		return cp.AllowedActions[0], 0
	}
	c := td.env.Choose(len(m), "wager")
	return m[c][0].(string), m[c][1].(int64)
}

// HandPolicy says how requests are answered.
type HandPolicy struct {
	Line     Line
	Withhold map[string]bool // players whose ready/ante/blind responses are withheld
	Reverse  bool            // answer requests in reverse order
	Finish   string          // settlement-finished signals: "all" | "none" | "first"
}

// step performs one driver step: answer what is pending, else fire a timer. Returns false on wedge.
func (td *TD) step(pol *HandPolicy) (progress bool) {
	td.env.Settle()
	p := td.pending()
	switch p.Kind {
	case "ready", "ante", "blinds":
		ids := append([]string{}, p.Players...)
		if pol.Reverse {
			for i, j := 0, len(ids)-1; i < j; i, j = i+1, j-1 {
				ids[i], ids[j] = ids[j], ids[i]
			}
		}
		sent := 0
		for _, id := range ids {
			if pol.Withhold[id] {
				continue
			}
			td.respondOne(p, id)
			sent++
		}
		if sent > 0 {
			return true
		}
	case "wager":
		cp := p.GS.GetPlayer(p.GS.Status.CurrentPlayer)
		a, amt := pol.Line(td, p.GS, cp)
		td.act(p.Players[0], a, amt)
		return true
	}
	// between hands: settlement-finished signals once the next hand has been set up
	if td.signalFinish(pol) {
		return true
	}
	if td.env.PendingTimers() > 0 {
		td.env.AdvanceTimer()
		return true
	}
	return false
}

func (td *TD) signalFinish(pol *HandPolicy) bool {
	t := td.table()
	if t.State.Status != pt.TableStateStatus_TableGameStandby && t.State.Status != pt.TableStateStatus_TableGameSettled {
		return false
	}
	og := pt.VerifOpenGameManager(td.te)
	if og == nil {
		return false
	}
	st := og.GetState()
	if st.GameCount != t.State.GameCount+1 {
		return false
	}
	if td.finGame != st.GameCount {
		td.finGame = st.GameCount
		td.finished = map[string]bool{}
	}
	if pol.Finish == "none" {
		return false
	}
	sent := false
	var ids []string
	for id := range st.Participants {
		ids = append(ids, id)
	}
	sort.Strings(ids)
	for _, id := range ids {
		if td.finished[id] {
			continue
		}
		pl := td.player(id)
		if pl == nil || !pl.IsIn {
			td.finished[id] = true
			continue
		}
		err := td.te.PlayerSettlementFinish(id)
		td.logf("finish(%s)->%v", id, err)
		td.finished[id] = true
		sent = true
		if pol.Finish == "first" {
			for _, x := range ids {
				td.finished[x] = true
			}
			break
		}
	}
	return sent
}

// runUntil steps until cond holds at a quiescent point; false = wedge or step budget exhausted.
func (td *TD) runUntil(pol *HandPolicy, maxSteps int, cond func() bool) bool {
	for i := 0; i < maxSteps; i++ {
		td.env.Settle()
		if cond() {
			return true
		}
		if !td.step(pol) {
			td.env.Settle()
			return cond()
		}
	}
	td.env.Settle()
	return cond()
}

func (td *TD) status() pt.TableStateStatus { return td.table().State.Status }

// playHand runs from the current point until the hand with number `game` has been settled and the
// table left it (standby / pausing / next hand opened).
func (td *TD) playHand(pol *HandPolicy, game int) bool {
	return td.runUntil(pol, 400, func() bool {
		t := td.table()
		if t.State.GameCount > game {
			return true
		}
		if t.State.GameCount == game && (t.State.Status == pt.TableStateStatus_TableGameStandby || t.State.Status == pt.TableStateStatus_TablePausing || t.State.Status == pt.TableStateStatus_TableClosed) {
			return true
		}
		return false
	})
}

// openHand runs until hand number `game` is being played (first request visible).
func (td *TD) openHand(pol *HandPolicy, game int) bool {
	return td.runUntil(pol, 400, func() bool {
		t := td.table()
		return t.State.GameCount == game && t.State.Status == pt.TableStateStatus_TableGamePlaying && t.State.GameState != nil
	})
}

// lastSnapWhere returns the last recorded snapshot satisfying f.
func (td *TD) lastSnapWhere(f func(s *Snap) bool) *Snap {
	for i := len(td.snaps) - 1; i >= 0; i-- {
		if f(td.snaps[i]) {
			return td.snaps[i]
		}
	}
	return nil
}

func (td *TD) sumBankroll() int64 {
	var s int64
	for _, p := range td.table().State.PlayerStates {
		s += p.Bankroll
	}
	return s
}

func (td *TD) opsString() string { return strings.Join(td.log, " ") }

// runTable wraps vrt.Run for table scenarios and converts runtime verdicts.
func runTable(prefix []int, cfg vrt.Config, body func(env *vrt.Env) (outcome, viol, detail string)) *vrt.Exec {
	cfg.Prefix = prefix
	if cfg.MaxSteps == 0 {
		cfg.MaxSteps = 3_000_000
	}
	var outcome, viol, detail string
	res := vrt.Run(cfg, func(env *vrt.Env) {
		outcome, viol, detail = body(env)
	})
	x := &vrt.Exec{Trace: res.Trace, Outcome: outcome, Violation: viol, Detail: detail}
	if res.ReplayError != "" {
		x.Fatal = "replay: " + res.ReplayError
	}
	if res.DriverPanic != "" {
		x.Fatal = "driver panic: " + res.DriverPanic
	}
	if res.Leaked > 0 {
		x.Fatal = "leaked threads"
	}
	if x.Violation == "" && (res.Deadlock || res.Horizon) {
		// a deadlock that unwound the driver before it could judge: report generically
		x.Violation = "deadlock@runtime"
		x.Detail = "the system dead-locked while the driver was inside an API call\nparked: " + strings.Join(res.Parked, "; ")
	}
	if x.Violation == "" && len(res.Panics) > 0 {
		x.Violation = "panic@" + panicSite(res.Panics[0])
		x.Detail = res.Panics[0]
	}
	return x
}

// panicSite extracts "file.go:func" of the first pokertable frame of a panic report.
func panicSite(p string) string {
	lines := strings.Split(p, "\n")
	for _, l := range lines {
		if strings.Contains(l, "github.com/weedbox/pokertable") && strings.Contains(l, "(") && !strings.Contains(l, "/") {
			continue
		}
		if strings.Contains(l, "github.com/weedbox/pokertable.") || strings.Contains(l, "github.com/weedbox/pokertable/") {
			f := strings.TrimSpace(l)
			if i := strings.LastIndex(f, "("); i > 0 {
				f = f[:i]
			}
			f = strings.TrimPrefix(f, "github.com/weedbox/")
			if strings.Contains(f, ".go:") {
				continue
			}
			return f
		}
	}
	return firstLine(p)
}
