package main

import (
	"fmt"

	"verif.local/vrt"
)

func init() {
	register(&Check{ID: "SMOKE", Level: "other", Suites: func(tier string) []*Suite {
		return []*Suite{{Name: "smoke", Run: func(prefix []int) *vrt.Exec {
			return runTable(prefix, vrt.Config{}, func(env *vrt.Env) (string, string, string) {
				td, err := newTD(env, defaultCfg(4))
				if err != nil {
					return "", "create", err.Error()
				}
				td.seatIn([]string{"a", "b", "c"}, []int{0, 1, 2}, []int64{10, 10, 10})
				td.start()
				pol := &HandPolicy{Line: lineCheckDown, Finish: "all"}
				ok1 := td.playHand(pol, 1)
				ok2 := td.playHand(pol, 2)
				s := fmt.Sprintf("ok=%v,%v steps=%d now=+%dms status=%s gc=%d bank=%d errs=%v\n", ok1, ok2, env.Steps(), (env.Now()-vrt.Epoch*1e9)/1e6, td.status(), td.table().State.GameCount, td.sumBankroll(), td.errs)
				for _, sn := range td.snaps {
					ev := ""
					if sn.T.State.GameState != nil {
						ev = sn.T.State.GameState.Status.Round + "/" + sn.T.State.GameState.Status.CurrentEvent
					}
					s += fmt.Sprintf("  #%d +%dms %s gc=%d %s\n", sn.T.UpdateSerial, (sn.VTime-vrt.Epoch*1e9)/1e6, sn.T.State.Status, sn.T.State.GameCount, ev)
				}
				s += td.opsString()
				fmt.Fprintln(out, s)
				return "x", "", ""
			})
		}}}
	}})
}
