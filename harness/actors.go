package main

// C18 (bots), C19 (player runner auto-play), C20 (observers / independent copies).
// Phase 1 traverses hand trees on the real engine and collects every distinct published snapshot;
// phase 2 pushes each snapshot through real actors wired to a recording engine, enumerating every
// random draw / status / action time / attachment order.

import (
	"encoding/json"
	"fmt"
	"sort"
	"strings"
	"time"

	"github.com/weedbox/pokerface"
	pt "github.com/weedbox/pokertable"
	"github.com/weedbox/pokertable/actor"
	"verif.local/vrt"
)

type recCall struct {
	Kind  string
	ID    string
	Chips int64
	VTime int64
}

// recEngine records the player game actions an actor submits; everything else is unused.
type recEngine struct {
	pt.TableEngine
	calls []recCall
	now   func() int64
	joins []string
}

func (r *recEngine) rec(kind, id string, chips int64) error {
	t := int64(0)
	if r.now != nil {
		t = r.now()
	}
	r.calls = append(r.calls, recCall{kind, id, chips, t})
	return nil
}
func (r *recEngine) PlayerReady(id string) error              { return r.rec("ready", id, 0) }
func (r *recEngine) PlayerPay(id string, chips int64) error   { return r.rec("pay", id, chips) }
func (r *recEngine) PlayerBet(id string, chips int64) error   { return r.rec("bet", id, chips) }
func (r *recEngine) PlayerRaise(id string, chips int64) error { return r.rec("raise", id, chips) }
func (r *recEngine) PlayerCall(id string) error               { return r.rec("call", id, 0) }
func (r *recEngine) PlayerAllin(id string) error              { return r.rec("allin", id, 0) }
func (r *recEngine) PlayerCheck(id string) error              { return r.rec("check", id, 0) }
func (r *recEngine) PlayerFold(id string) error               { return r.rec("fold", id, 0) }
func (r *recEngine) PlayerPass(id string) error               { return r.rec("pass", id, 0) }
func (r *recEngine) PlayerJoin(id string) error               { r.joins = append(r.joins, id); return nil }

// ---- phase 1: snapshot collection ------------------------------------------------------------------

type snapNode struct {
	T    *pt.Table
	Key  string
	From string
}

type collector struct {
	baseMon
	seen  map[string]bool
	nodes *[]*snapNode
	upto  int
	from  string
}

func snapKey(t *pt.Table) string {
	c := deepCopy(t)
	c.UpdateSerial, c.UpdateAt = 0, 0
	if gs := c.State.GameState; gs != nil {
		gs.UpdatedAt, gs.CreatedAt = 0, 0
	}
	if la := c.State.LastPlayerGameAction; la != nil {
		la.UpdateAt = 0
	}
	c.State.StartAt = 0
	c.State.CurrentActionEndAt = 0
	data, _ := json.Marshal(c)
	return string(data)
}

func (c *collector) scan(td *TD) {
	for ; c.upto < len(td.snaps); c.upto++ {
		s := td.snaps[c.upto]
		k := snapKey(s.T)
		if c.seen[k] {
			continue
		}
		c.seen[k] = true
		*c.nodes = append(*c.nodes, &snapNode{T: deepCopy(s.T), Key: k, From: c.from})
	}
}
func (c *collector) Quiescent(td *TD, p Pending) *Viol { c.scan(td); return nil }
func (c *collector) After(td *TD, ev *ActEvent) *Viol  { c.scan(td); return nil }
func (c *collector) End(td *TD) *Viol                  { c.scan(td); return nil }

// collectSnapshots traverses the full hand tree of every configuration and returns the distinct snapshots.
func collectSnapshots(cfgs []*handCfg, maxExec int) ([]*snapNode, int, string) {
	var nodes []*snapNode
	seen := map[string]bool{}
	execs := 0
	for _, hc := range cfgs {
		hc := hc
		ex := &vrt.Explorer{Bound: 0, Deadline: deadline, MaxExec: maxExec, Run: func(prefix []int) *vrt.Exec {
			return runHandCfg(prefix, hc, vrt.Config{}, func(td *TD) []Monitor {
				return []Monitor{&collector{seen: seen, nodes: &nodes, from: hc.name}}
			})
		}}
		ex.Explore(nil, 0)
		execs += ex.Execs
		if ex.Fatal != "" {
			return nodes, execs, ex.Fatal
		}
	}
	return nodes, execs, ""
}

func actorConfigs(tier string) []*handCfg {
	var out []*handCfg
	type lay struct {
		ids    []string
		seats  []int
		stacks []int64
	}
	lays := []lay{
		{[]string{"a", "b"}, []int{0, 2}, []int64{1, 5}},
		{[]string{"a", "b"}, []int{1, 3}, []int64{9, 2}},
		{[]string{"a", "b"}, []int{0, 1}, []int64{3, 3}},
		{[]string{"a", "b", "c"}, []int{0, 1, 3}, []int64{5, 3, 9}},
	}
	if tier == "thorough" {
		lays = append(lays, lay{[]string{"a", "b", "c"}, []int{0, 2, 3}, []int64{1, 9, 2}}, lay{[]string{"a", "b", "c"}, []int{1, 2, 4}, []int64{2, 2, 5}})
	}
	for li, l := range lays {
		for _, b := range []pt.TableBlindState{blindStd(), blindAnte(), blindDealer()} {
			if len(l.ids) >= 3 && b.Dealer > 0 {
				continue
			}
			tc := defaultCfg(5)
			tc.Blind = b
			tc.Deck = "asc"
			out = append(out, &handCfg{name: fmt.Sprintf("lay%d/%s", li, blindName(b)), tcfg: tc, ids: l.ids, seatOf: l.seats, stacks: l.stacks, sitOut: true, hands: 1, line: lineExplore})
		}
	}
	return out
}

// ---- helpers ------------------------------------------------------------------------------------------

func newActorOn(rec *recEngine, t *pt.Table, r actor.Runner) actor.Actor {
	a := actor.NewActor()
	a.SetAdapter(actor.NewTableEngineAdapter(rec, t))
	a.SetRunner(r)
	return a
}

func askedActions(t *pt.Table, id string) (gi int, allowed []string) {
	gi = gameIdxOf(t, id)
	if gi < 0 || t.State.Status != pt.TableStateStatus_TableGamePlaying || t.State.GameState == nil {
		return gi, nil
	}
	return gi, allowedOf(t.State.GameState, gi)
}

func expectedPay(gs *pokerface.GameState, gi int) int64 {
	switch gs.Status.CurrentEvent {
	case "AnteRequested":
		return gs.Meta.Ante
	case "BlindsRequested":
		if gs.HasPosition(gi, "sb") {
			return gs.Meta.Blind.SB
		}
		if gs.HasPosition(gi, "bb") {
			return gs.Meta.Blind.BB
		}
		return gs.Meta.Blind.Dealer
	}
	return -1
}

// engineAccepts: would a real hand engine accept this action on this state?
func engineAccepts(t *pt.Table, gi int, c recCall) string {
	gs := deepCopy(t.State.GameState)
	allowed := allowedOf(gs, gi)
	if !hasStr(allowed, c.Kind) {
		return fmt.Sprintf("%s is not among the allowed actions %v", c.Kind, allowed)
	}
	be := pt.NewNativeGameBackend()
	var err error
	switch c.Kind {
	case "ready":
		return ""
	case "pay":
		if want := expectedPay(gs, gi); want != c.Chips {
			return fmt.Sprintf("pays %d, the posted size is %d", c.Chips, want)
		}
		return ""
	}
	if gs.Status.CurrentPlayer != gi {
		return "it is not this player's turn"
	}
	switch c.Kind {
	case "pass":
		_, err = be.Pass(gs)
	case "fold":
		_, err = be.Fold(gs)
	case "check":
		_, err = be.Check(gs)
	case "call":
		_, err = be.Call(gs)
	case "allin":
		_, err = be.Allin(gs)
	case "bet":
		_, err = be.Bet(gs, c.Chips)
	case "raise":
		_, err = be.Raise(gs, c.Chips)
	}
	if err != nil {
		return fmt.Sprintf("the hand engine refuses %s(%d): %v", c.Kind, c.Chips, err)
	}
	return ""
}

func describeNode(t *pt.Table) string {
	ev := gsEvent(t)
	s := fmt.Sprintf("status=%s event=%s", t.State.Status, ev)
	if gs := t.State.GameState; gs != nil {
		s += fmt.Sprintf(" round=%s cp=%d wager=%d raise=%d minbet=%d", gs.Status.Round, gs.Status.CurrentPlayer, gs.Status.CurrentWager, gs.Status.PreviousRaiseSize, gs.Status.MiniBet)
		for _, p := range gs.Players {
			s += fmt.Sprintf(" [%d %s stack=%d init=%d wager=%d fold=%v allowed=%v]", p.Idx, strings.Join(p.Positions, "+"), p.StackSize, p.InitialStackSize, p.Wager, p.Fold, p.AllowedActions)
		}
	}
	return s
}

// ---- C18 ------------------------------------------------------------------------------------------------

func c18Node(n *snapNode, humanized bool, st *SuiteStats, viol map[string]*Violation, suite string) {
	t := n.T
	// A locked outside call (re-buy, add-on, departure) that lands after startGame has set the status to
	// playing and before the hand's first state has arrived publishes "playing" without a hand state: a bot
	// shown that is not asked anything and must stay silent (in particular it must survive it).
	if !humanized && t.State.Status == pt.TableStateStatus_TableGamePlaying && t.State.GameState != nil && gsEvent(t) == "ReadyRequested" {
		for _, p := range t.State.PlayerStates {
			variant := deepCopy(t)
			variant.State.GameState = nil
			var calls []recCall
			res := vrt.Run(vrt.Config{MaxSteps: 100000}, func(env *vrt.Env) {
				rec := &recEngine{now: env.Now}
				a := newActorOn(rec, deepCopy(variant), actor.NewBotRunner(p.PlayerID))
				a.GetTable().UpdateTableState(variant)
				env.Settle()
				calls = rec.calls
				st.Transitions++
				st.Execs++
			})
			key, detail := "", ""
			if res.DriverPanic != "" {
				key, detail = "panic@playing-without-hand-state", fmt.Sprintf("bot %s shown status playing without a hand state panics: %s", p.PlayerID, firstLine(res.DriverPanic))
			} else if len(calls) > 0 {
				key, detail = "acts-when-not-asked@playing-without-hand-state", fmt.Sprintf("bot %s shown status playing without a hand state submitted %+v", p.PlayerID, calls)
			}
			if key != "" {
				if _, ok := viol[key]; !ok && !hitKnown(key, detail) {
					clause, k := splitKey(key)
					viol[key] = &Violation{Suite: suite, Clause: clause, Key: k, Detail: detail + "\nnode: " + describeNode(t) + "\nfrom: " + n.From}
				}
			}
		}
	}
	ids := []string{"ghost"}
	for _, p := range t.State.PlayerStates {
		ids = append(ids, p.PlayerID)
	}
	for _, id := range ids {
		id := id
		gi, allowed := askedActions(t, id)
		pl, _ := playerByID(t, id)
		asked := len(allowed) > 0 && pl != nil && pl.IsIn
		var v *Viol
		vrt.Run(vrt.Config{MaxSteps: 100000}, func(env *vrt.Env) {
			runs := env.ForAllRand(func(draws []int) {
				if v != nil {
					return
				}
				rec := &recEngine{now: env.Now}
				bot := actor.NewBotRunner(id)
				bot.Humanized(humanized)
				a := newActorOn(rec, deepCopy(t), bot)
				view := deepCopy(t)
				if humanized {
					view.Meta.ActionTime = 3
				}
				a.GetTable().UpdateTableState(view)
				env.Settle()
				if humanized {
					// the same state delivered again while the think-time timer is pending: still one answer
					a.GetTable().UpdateTableState(deepCopy(view))
					env.Settle()
				}
				for i := 0; i < 4 && env.PendingTimers() > 0; i++ {
					env.AdvanceTimer()
					env.Settle()
				}
				st.Transitions++
				if !asked {
					if len(rec.calls) != 0 {
						v = &Viol{Key: "acts-when-not-asked", Detail: fmt.Sprintf("bot %s is not asked to act (allowed %v, seated-in %v) but submitted %+v", id, allowed, pl != nil && pl.IsIn, rec.calls)}
					}
					return
				}
				if len(rec.calls) != 1 {
					v = &Viol{Key: fmt.Sprintf("calls-%d", len(rec.calls)), Detail: fmt.Sprintf("bot %s asked to act (allowed %v) submitted %d actions %+v with draws %v", id, allowed, len(rec.calls), rec.calls, draws)}
					return
				}
				c := rec.calls[0]
				if c.ID != id {
					v = &Viol{Key: "acts-for-another-player", Detail: fmt.Sprintf("bot %s submitted %s for %s", id, c.Kind, c.ID)}
					return
				}
				if why := engineAccepts(t, gi, c); why != "" {
					v = &Viol{Key: "illegal-move@" + c.Kind, Detail: fmt.Sprintf("bot %s (entry %d) submitted %s(%d) with draws %v: %s", id, gi, c.Kind, c.Chips, draws, why)}
					return
				}
				// the same view again is stale: silence
				rec.calls = nil
				a.GetTable().UpdateTableState(deepCopy(view))
				env.Settle()
				for i := 0; i < 4 && env.PendingTimers() > 0; i++ {
					env.AdvanceTimer()
					env.Settle()
				}
				if len(rec.calls) != 0 {
					v = &Viol{Key: "acts-on-stale-view", Detail: fmt.Sprintf("bot %s was shown the same state twice and acted again: %+v", id, rec.calls)}
					return
				}
				// an older state of the same hand arriving late is stale too
				older := deepCopy(view)
				older.State.GameState.UpdatedAt--
				older.UpdateSerial--
				a.GetTable().UpdateTableState(older)
				env.Settle()
				for i := 0; i < 4 && env.PendingTimers() > 0; i++ {
					env.AdvanceTimer()
					env.Settle()
				}
				if len(rec.calls) != 0 {
					v = &Viol{Key: "acts-on-stale-view", Detail: fmt.Sprintf("bot %s was shown an older state of the hand after a newer one and acted again: %+v", id, rec.calls)}
				}
			})
			st.Execs += runs
		})
		if v != nil {
			if _, ok := viol[v.Key]; !ok && !hitKnown(v.Key, v.Detail) {
				clause, k := splitKey(v.Key)
				viol[v.Key] = &Violation{Suite: suite, Clause: clause, Key: k, Detail: v.Detail + "\nnode: " + describeNode(t) + "\nfrom: " + n.From}
			}
		}
	}
}

// bot tables: every hand played entirely by bots reaches settlement
func c18BotTable(prefix []int, n int, stacks []int64, blind pt.TableBlindState) *vrt.Exec {
	return c18BotTableX(prefix, n, stacks, blind, 0, "")
}

// c18BotTableX with inject=true: the same bot table with default draws while a newcomer's PlayerReserve, issued by
// an outside caller, competes with the bots' moves under every schedule within the bound. The engine notifies the
// actors while it holds its lock and a (non-humanized) bot answers from inside that notification while its
// actor's lock is held; the hand must settle all the same.
func c18BotTableX(prefix []int, n int, stacks []int64, blind pt.TableBlindState, injectAt int, outside string) *vrt.Exec {
	inject := injectAt > 0
	return runTable(prefix, vrt.Config{DataExplore: !inject, DataCost: !inject}, func(env *vrt.Env) (string, string, string) {
		tc := defaultCfg(4)
		tc.Blind = blind
		tc.ActionTime = 5
		td, err := newTD(env, tc)
		if err != nil {
			return "", "harness-create", err.Error()
		}
		var actors []actor.Actor
		var chosen []string
		orig := td.te
		cb := td.callbacks()
		playingSeen := 0
		td.te.OnTableUpdated(func(t *pt.Table) {
			cb.OnTableUpdated(t)
			if inject && t.State.Status == pt.TableStateStatus_TableGamePlaying {
				playingSeen++
				if playingSeen == injectAt {
					// the outside caller turns up while this update is on its way to the actors
					if outside == "addon" {
						env.Go("outside:addon", false, func() { td.addon("a", 3) })
					} else {
						env.Go("outside:reserve", false, func() { td.reserve("x", 3, 5) })
					}
				}
			}
			for _, a := range actors {
				a.GetTable().UpdateTableState(t)
			}
		})
		ids := []string{"a", "b", "c"}[:n]
		for _, id := range ids {
			a := actor.NewActor()
			a.SetAdapter(actor.NewTableEngineAdapter(orig, td.table()))
			bot := actor.NewBotRunner(id)
			bot.OnTableAutoJoinActionRequested(func(c, t, playerID string) { orig.PlayerJoin(playerID) })
			bot.OnTableGameWagerActionUpdated(func(tableID, gameID string, gc int, round, action string, chips int64) {
				chosen = append(chosen, fmt.Sprintf("%s:%s:%d", round, action, chips))
			})
			a.SetRunner(bot)
			actors = append(actors, a)
		}
		for i, id := range ids {
			td.reserve(id, i, stacks[i])
		}
		td.start()
		if inject {
			env.WindowBegin()
		}
		// no driver response: only timers
		ok := false
		for i := 0; i < 400; i++ {
			env.Settle()
			t := td.table()
			if t.State.GameCount >= 1 && (t.State.Status == pt.TableStateStatus_TableGameStandby || t.State.Status == pt.TableStateStatus_TablePausing || t.State.GameCount >= 2) {
				ok = true
				break
			}
			if env.PendingTimers() == 0 {
				break
			}
			env.AdvanceTimer()
		}
		if inject {
			env.WindowEnd()
		}
		outcome := fmt.Sprintf("settled=%v %v %s", ok, chosen, handOutcome(td))
		if !ok && inject {
			t := td.table()
			return outcome, "bot-hand-never-settles@outside-" + outside + "-racing-bot-move", fmt.Sprintf("an outside call (" + outside + ") issued while the bots play: the hand did not reach settlement: status %s, event %s, blocked %v, errors %v", t.State.Status, gsEvent(t), env.Blocked(), td.errs)
		}
		if !ok {
			t := td.table()
			return outcome, "bot-hand-never-settles", fmt.Sprintf("a hand played entirely by bots did not reach settlement: status %s, event %s, bot decisions %v, errors %v\n%s", t.State.Status, gsEvent(t), chosen, td.errs, describeNode(t))
		}
		return outcome, "", ""
	})
}

// ---- C19 ------------------------------------------------------------------------------------------------

func c19Node(n *snapNode, st *SuiteStats, viol map[string]*Violation, suite string) {
	t := n.T
	// "playing" published without a hand state (see c18Node): the player runner is not asked anything
	if t.State.Status == pt.TableStateStatus_TableGamePlaying && t.State.GameState != nil && gsEvent(t) == "ReadyRequested" {
		for _, p := range t.State.PlayerStates {
			variant := deepCopy(t)
			variant.State.GameState = nil
			var calls []recCall
			res := vrt.Run(vrt.Config{MaxSteps: 100000}, func(env *vrt.Env) {
				rec := &recEngine{now: env.Now}
				a := newActorOn(rec, deepCopy(variant), actor.NewPlayerRunner(p.PlayerID))
				a.GetTable().UpdateTableState(variant)
				env.Settle()
				for i := 0; i < 4 && env.PendingTimers() > 0; i++ {
					env.AdvanceTimer()
					env.Settle()
				}
				calls = rec.calls
				st.Transitions++
				st.Execs++
			})
			key, detail := "", ""
			if res.DriverPanic != "" {
				key, detail = "panic@playing-without-hand-state", fmt.Sprintf("player runner of %s shown status playing without a hand state panics: %s", p.PlayerID, firstLine(res.DriverPanic))
			} else if len(calls) > 0 {
				key, detail = "acts-when-not-asked@playing-without-hand-state", fmt.Sprintf("player runner of %s shown status playing without a hand state submitted %+v", p.PlayerID, calls)
			}
			if key != "" {
				if _, ok := viol[key]; !ok && !hitKnown(key, detail) {
					clause, k := splitKey(key)
					viol[key] = &Violation{Suite: suite, Clause: clause, Key: k, Detail: detail + "\nnode: " + describeNode(t) + "\nfrom: " + n.From}
				}
			}
		}
	}
	for _, pl := range t.State.PlayerStates {
		id := pl.PlayerID
		gi, allowed := askedActions(t, id)
		asked := len(allowed) > 0
		for _, status := range []string{"running", "idle", "idle-last", "suspended"} {
			for _, at := range []int{0, 1, 10, 75} {
				var v *Viol
				vrt.Run(vrt.Config{MaxSteps: 100000}, func(env *vrt.Env) {
					rec := &recEngine{now: env.Now}
					pr := actor.NewPlayerRunner(id)
					switch status {
					case "idle":
						pr.Idle()
					case "idle-last": // idle with one time-out behind it: the next time-out suspends the runner
						pr.Idle()
						pr.Idle()
					case "suspended":
						pr.Suspend()
					}
					view := deepCopy(t)
					view.Meta.ActionTime = at
					a := newActorOn(rec, deepCopy(view), pr)
					t0 := env.Now()
					a.GetTable().UpdateTableState(view)
					env.Settle()
					st.Transitions++
					st.Execs++
					early := append([]recCall{}, rec.calls...)
					// run the clock to well past the thinking time
					for i := 0; i < 6 && env.PendingTimers() > 0 && env.NextTimerDue() <= t0+int64(at+2)*1e9; i++ {
						env.AdvanceTimer()
						env.Settle()
					}
					all := rec.calls
					if !asked {
						if len(all) != 0 {
							v = &Viol{Key: "acts-when-not-asked", Detail: fmt.Sprintf("runner of %s (not asked) submitted %+v", id, all)}
						}
						return
					}
					gs := t.State.GameState
					immediate := hasStr(allowed, "pass") || status == "suspended" || at == 0
					if !immediate && len(early) > 0 {
						v = &Viol{Key: "acts-before-thinking-time", Detail: fmt.Sprintf("runner of %s (%s, action time %ds) submitted %+v at once", id, status, at, early)}
						return
					}
					if len(all) != 1 {
						v = &Viol{Key: fmt.Sprintf("auto-play-calls-%d", len(all)), Detail: fmt.Sprintf("runner of %s (%s, action time %ds, allowed %v) submitted %d actions: %+v", id, status, at, allowed, len(all), all)}
						return
					}
					c := all[0]
					if !immediate && c.VTime < t0+int64(at)*1e9 {
						v = &Viol{Key: "acts-before-thinking-time", Detail: fmt.Sprintf("runner of %s acted %dms after being asked, action time %ds", id, (c.VTime-t0)/1e6, at)}
						return
					}
					want := ""
					switch {
					case hasStr(allowed, "pass"):
						want = "pass"
					case hasStr(allowed, "ready"):
						want = "ready"
					case hasStr(allowed, "check"):
						want = "check"
					case hasStr(allowed, "fold"):
						want = "fold"
					case hasStr(allowed, "pay"):
						want = "pay"
					}
					if c.ID != id || c.Kind != want {
						v = &Viol{Key: "auto-play-not-conservative@" + c.Kind, Detail: fmt.Sprintf("runner of %s (%s) with allowed %v submitted %s for %s, the conservative move is %s", id, status, allowed, c.Kind, c.ID, want)}
						return
					}
					if c.Kind == "pay" {
						if w := expectedPay(gs, gi); c.Chips != w {
							v = &Viol{Key: "auto-pay-size", Detail: fmt.Sprintf("runner of %s pays %d, the posted size is %d (%s, positions %v)", id, c.Chips, w, gs.Status.CurrentEvent, gs.GetPlayer(gi).Positions)}
						}
					}
				})
				if v != nil {
					if _, ok := viol[v.Key]; !ok && !hitKnown(v.Key, v.Detail) {
						clause, k := splitKey(v.Key)
						viol[v.Key] = &Violation{Suite: suite, Clause: clause, Key: k, Detail: v.Detail + fmt.Sprintf("\nstatus=%s action time=%d", status, at) + "\nnode: " + describeNode(t) + "\nfrom: " + n.From}
					}
				}
			}
		}
	}
}

// ---- C20 ------------------------------------------------------------------------------------------------

func hiddenOK(view *pt.Table) string {
	gs := view.State.GameState
	if gs == nil {
		return ""
	}
	if len(gs.Meta.Deck) != 0 {
		return "the deck is visible"
	}
	if len(gs.Status.Burned) != 0 {
		return "burned cards are visible"
	}
	closed := gs.Status.CurrentEvent == "GameClosed"
	for _, p := range gs.Players {
		if closed && !p.Fold {
			continue
		}
		if len(p.HoleCards) != 0 {
			return fmt.Sprintf("hole cards of entry %d are visible (closed=%v fold=%v)", p.Idx, closed, p.Fold)
		}
		if p.Combination != nil && (p.Combination.Type != "" || len(p.Combination.Cards) != 0 || p.Combination.Power != 0) {
			return fmt.Sprintf("hand strength of entry %d is visible (closed=%v fold=%v)", p.Idx, closed, p.Fold)
		}
	}
	return ""
}

var c20MaxActors = 3

func c20Node(n *snapNode, st *SuiteStats, viol map[string]*Violation, suite string) {
	t := n.T
	kinds := []string{"observer", "system", "bot", "player"}
	var orders [][]string
	for _, a := range kinds {
		orders = append(orders, []string{a})
		for _, b := range kinds {
			if b == a {
				continue
			}
			orders = append(orders, []string{a, b})
			for _, c := range kinds {
				if c == a || c == b || c20MaxActors < 3 {
					continue
				}
				orders = append(orders, []string{a, b, c})
			}
		}
	}
	ids := []string{"a", "b"}
	origJSON, _ := t.GetJSON()
	// the same hand state published under the table statuses an external call can put a table into while a
	// hand is in play (PauseTable / CloseTable do not end the hand): a plain observer must still see nothing hidden
	if t.State.GameState != nil && t.State.Status == pt.TableStateStatus_TableGamePlaying {
		for _, status := range []pt.TableStateStatus{pt.TableStateStatus_TablePausing, pt.TableStateStatus_TableClosed} {
			variant := deepCopy(t)
			variant.State.Status = status
			var seen *pt.Table
			vrt.Run(vrt.Config{MaxSteps: 100000}, func(env *vrt.Env) {
				o := actor.NewObserverRunner()
				o.OnTableStateUpdated(func(tt *pt.Table) { seen = tt })
				a := newActorOn(&recEngine{now: env.Now}, deepCopy(variant), o)
				a.GetTable().UpdateTableState(variant)
				env.Settle()
				st.Transitions++
				st.Execs++
			})
			if seen != nil {
				if why := hiddenOK(seen); why != "" {
					key := "observer-sees-hidden-cards@status-" + string(status)
					if _, ok := viol[key]; !ok && !hitKnown(key, why) {
						clause, k := splitKey(key)
						viol[key] = &Violation{Suite: suite, Clause: clause, Key: k, Detail: fmt.Sprintf("a plain observer shown a hand in play under table status %s: %s\nnode: %s\nfrom: %s", status, why, describeNode(t), n.From)}
					}
				}
			}
		}
	}
	// an observer whose system mode was switched on and off again is a plain observer
	if t.State.GameState != nil {
		var seen *pt.Table
		vrt.Run(vrt.Config{MaxSteps: 100000}, func(env *vrt.Env) {
			o := actor.NewObserverRunner()
			o.EnabledSystemMode(true)
			o.EnabledSystemMode(false)
			o.OnTableStateUpdated(func(tt *pt.Table) { seen = tt })
			a := newActorOn(&recEngine{now: env.Now}, deepCopy(t), o)
			a.GetTable().UpdateTableState(deepCopy(t))
			env.Settle()
			st.Transitions++
			st.Execs++
		})
		if seen != nil {
			if why := hiddenOK(seen); why != "" {
				key := "observer-sees-hidden-cards@system-mode-switched-off"
				if _, ok := viol[key]; !ok && !hitKnown(key, why) {
					clause, k := splitKey(key)
					viol[key] = &Violation{Suite: suite, Clause: clause, Key: k, Detail: fmt.Sprintf("an observer whose system mode was switched on and off again: %s\nnode: %s\nfrom: %s", why, describeNode(t), n.From)}
				}
			}
		}
	}
	for _, order := range orders {
		var v *Viol
		vrt.Run(vrt.Config{MaxSteps: 100000}, func(env *vrt.Env) {
			engine := deepCopy(t) // what the engine holds and hands to every actor
			rec := &recEngine{now: env.Now}
			type att struct {
				kind string
				ad   actor.Adapter
				seen *pt.Table
			}
			var atts []*att
			for _, k := range order {
				at := &att{kind: k}
				var r actor.Runner
				switch k {
				case "observer", "system":
					o := actor.NewObserverRunner()
					o.EnabledSystemMode(k == "system")
					o.OnTableStateUpdated(func(tt *pt.Table) { at.seen = tt })
					r = o
				case "bot":
					r = actor.NewBotRunner(ids[0])
				case "player":
					r = actor.NewPlayerRunner(ids[1])
				}
				a := newActorOn(rec, deepCopy(t), r)
				at.ad = a.GetTable()
				atts = append(atts, at)
			}
			for _, at := range atts {
				at.ad.UpdateTableState(engine)
				st.Transitions++
			}
			// a table-level event during a hand re-publishes the same hand state: every actor gets it again
			for _, at := range atts {
				if at.kind == "observer" {
					first := at.seen
					at.seen = nil
					at.ad.UpdateTableState(engine)
					if at.seen == nil {
						at.seen = first
					} else if why := hiddenOK(at.seen); why != "" {
						v = &Viol{Key: "observer-sees-hidden-cards@republished-state", Detail: fmt.Sprintf("non-system observer (order %v) shown the same hand state a second time: %s", order, why)}
						return
					}
				}
			}
			st.Execs++
			after, _ := engine.GetJSON()
			if after != origJSON {
				v = &Viol{Key: "engine-table-changed-by-actor", Detail: fmt.Sprintf("after actors %v were updated the engine's own table differs from before\nbefore: %s\nafter:  %s", order, origJSON, after)}
				return
			}
			for _, at := range atts {
				switch at.kind {
				case "observer":
					if at.seen == nil {
						v = &Viol{Key: "observer-not-notified", Detail: "the observer's callback was not invoked"}
						return
					}
					if why := hiddenOK(at.seen); why != "" {
						v = &Viol{Key: "observer-sees-hidden-cards@" + string(t.State.Status), Detail: fmt.Sprintf("non-system observer (order %v): %s", order, why)}
						return
					}
				case "system":
					// what the plain observer hides must stay visible to the others
					if gs := t.State.GameState; gs != nil && at.seen != nil {
						a, _ := json.Marshal(at.seen.State.GameState)
						b, _ := json.Marshal(gs)
						if string(a) != string(b) {
							v = &Viol{Key: "actor-view-changed-by-other-actor", Detail: fmt.Sprintf("system observer's view (order %v) differs from the engine's hand state\nview:   %s\nengine: %s", order, a, b)}
							return
						}
					}
				case "bot":
					if gs := t.State.GameState; gs != nil {
						a, _ := json.Marshal(at.ad.GetGameState())
						b, _ := json.Marshal(gs)
						if string(a) != string(b) {
							v = &Viol{Key: "actor-view-changed-by-other-actor", Detail: fmt.Sprintf("bot's view (order %v) differs from the engine's hand state\nview:   %s\nengine: %s", order, a, b)}
							return
						}
					}
				}
			}
		})
		if v != nil {
			if _, ok := viol[v.Key]; !ok && !hitKnown(v.Key, v.Detail) {
				clause, k := splitKey(v.Key)
				viol[v.Key] = &Violation{Suite: suite, Clause: clause, Key: k, Detail: v.Detail + "\nnode: " + describeNode(t) + "\nfrom: " + n.From}
			}
		}
	}
}

// opening window: the first game state may be published before startGame sets the status; collect the
// snapshots of every schedule within the bound and push them through a plain observer.
func c20OpeningWindow(prefix []int) *vrt.Exec {
	var leak string
	x := runTable(prefix, vrt.Config{FineAll: true}, func(env *vrt.Env) (string, string, string) {
		td, err := newTD(env, defaultCfg(3))
		if err != nil {
			return "", "harness-create", err.Error()
		}
		td.seatIn([]string{"a", "b"}, []int{0, 1}, []int64{5, 5})
		td.start()
		env.Settle()
		// the gate's timeout opens the hand: explore the schedules from here to the first request
		env.WindowBegin()
		for i := 0; i < 6; i++ {
			env.Settle()
			if td.pending().Kind != "" {
				break
			}
			if env.PendingTimers() == 0 {
				break
			}
			env.AdvanceTimer()
		}
		env.WindowEnd()
		var kinds []string
		for _, s := range td.snaps {
			kinds = append(kinds, fmt.Sprintf("%s/%s", s.T.State.Status, gsEvent(s.T)))
			o := actor.NewObserverRunner()
			var seen *pt.Table
			o.OnTableStateUpdated(func(tt *pt.Table) { seen = tt })
			a := newActorOn(&recEngine{}, deepCopy(s.T), o)
			a.GetTable().UpdateTableState(deepCopy(s.T))
			if seen != nil {
				if why := hiddenOK(seen); why != "" && leak == "" {
					leak = fmt.Sprintf("snapshot #%d (status %s, event %s): %s", s.T.UpdateSerial, s.T.State.Status, gsEvent(s.T), why)
				}
			}
		}
		if leak != "" {
			return strings.Join(kinds, " "), "observer-sees-hidden-cards@opening-window", "a non-system observer attached to the table is shown hidden cards in a snapshot published while the hand opens\n" + leak + "\nsnapshots: " + strings.Join(kinds, " ")
		}
		return strings.Join(kinds, " "), "", ""
	})
	return x
}

// long-lived observers attached to real tables: every table the engine publishes during multi-hand histories
// with membership / blind operations in the middle of hands goes to one plain observer (and one bot view).
type monObserver struct {
	baseMon
	rec  *recEngine
	obs  actor.Actor
	seen *pt.Table
	upto int
	viol *Viol
}

func newMonObserver(td *TD) *monObserver {
	m := &monObserver{rec: &recEngine{}}
	o := actor.NewObserverRunner()
	o.OnTableStateUpdated(func(t *pt.Table) { m.seen = t })
	m.obs = newActorOn(m.rec, deepCopy(td.table()), o)
	return m
}

func (m *monObserver) scan(td *TD) *Viol {
	for ; m.upto < len(td.snaps); m.upto++ {
		s := td.snaps[m.upto]
		m.seen = nil
		m.obs.GetTable().UpdateTableState(deepCopy(s.T))
		if m.seen == nil {
			continue
		}
		if why := hiddenOK(m.seen); why != "" {
			return &Viol{Key: "observer-sees-hidden-cards@live-table/" + string(s.T.State.Status), Detail: fmt.Sprintf("a plain observer attached to the table for the whole run is shown snapshot #%d (status %s, event %s): %s", s.T.UpdateSerial, s.T.State.Status, gsEvent(s.T), why)}
		}
	}
	return nil
}
func (m *monObserver) Quiescent(td *TD, p Pending) *Viol { return m.scan(td) }
func (m *monObserver) After(td *TD, ev *ActEvent) *Viol  { return m.scan(td) }
func (m *monObserver) End(td *TD) *Viol                  { return m.scan(td) }

// ---- suites ------------------------------------------------------------------------------------------------

func actorNodeSuite(name string, tier string, shard, shards int, each func(n *snapNode, st *SuiteStats, viol map[string]*Violation, suite string)) *Suite {
	return &Suite{Name: name, Weight: 5, Direct: func(st *SuiteStats) {
		cfgs := actorConfigs(tier)
		var mine []*handCfg
		for i, c := range cfgs {
			if i%shards == shard {
				mine = append(mine, c)
			}
		}
		t0 := time.Now()
		nodes, execs, fatal := collectSnapshots(mine, 0)
		if fatal != "" {
			st.Fatal = fatal
			return
		}
		viol := map[string]*Violation{}
		st.States = len(nodes)
		st.Execs = 0
		for i, n := range nodes {
			if i%64 == 0 && time.Now().After(deadline) {
				st.Capped = true
				st.Notes = append(st.Notes, fmt.Sprintf("%s: time cap after %d of %d snapshots", name, i, len(nodes)))
				break
			}
			each(n, st, viol, name)
		}
		st.Notes = append(st.Notes, fmt.Sprintf("%s: %d distinct snapshots from %d hand-tree executions of %d configurations (%.1fs), %d actor evaluations", name, len(nodes), execs, len(mine), time.Since(t0).Seconds(), st.Execs))
		st.Outcomes = map[string]int{}
		for _, n := range nodes {
			st.Outcomes[string(n.T.State.Status)+"/"+gsEvent(n.T)+"/"+n.From]++
		}
		if len(nodes) > 0 {
			st.Samples = append(st.Samples, describeNode(nodes[len(nodes)/2].T))
		}
		keys := make([]string, 0, len(viol))
		for k := range viol {
			keys = append(keys, k)
		}
		sort.Strings(keys)
		for _, k := range keys {
			st.Violations = append(st.Violations, *viol[k])
		}
	}}
}

func init() {
	const shards = 6
	register(&Check{
		ID: "C18", Level: "model_checking",
		Rule:        "(a) every distinct snapshot published along the full hand trees of the configurations (2-3 players, stacks from one chip upwards, minimum bets above the stack, facing all-ins, three blind structures, a sitting-out player) is shown to a fresh real bot (plain and humanized) for every player id and a stranger, every random draw of the bot enumerated (20-cell grid for the action roulette, every amount); the submitted call must be exactly one, for the bot itself, and accepted by a real hand engine started from that state (right payment size for antes / blinds); a bot not asked, not seated-in, or shown the same state twice must stay silent; (b) tables of 2-3 real bots wired as in the repository's actor test, every draw sequence with at most `bound` non-default draws: the hand must reach settlement with no driver help",
		Assumptions: []string{"Float64 draws are the mid-points of a 20-cell grid (every roulette bucket is at least 0.05 wide)", "acceptance is judged by a fresh native hand engine on a copy of the snapshot's hand state"},
		Suites: func(tier string) []*Suite {
			var ss []*Suite
			for sh := 0; sh < shards; sh++ {
				sh := sh
				ss = append(ss, actorNodeSuite(fmt.Sprintf("c18/nodes/shard%d", sh), tier, sh, shards, func(n *snapNode, st *SuiteStats, viol map[string]*Violation, suite string) {
					c18Node(n, false, st, viol, suite)
					c18Node(n, true, st, viol, suite)
				}))
			}
			bound := 2
			if tier == "thorough" {
				bound = 3
			}
			type bt struct {
				n      int
				stacks []int64
				blind  pt.TableBlindState
			}
			for i, b := range []bt{{2, []int64{4, 6}, blindStd()}, {2, []int64{1, 6}, blindStd()}, {3, []int64{4, 6, 3}, blindStd()}, {3, []int64{5, 2, 6}, blindAnte()}, {2, []int64{6, 6}, blindDealer()}} {
				b := b
				ss = append(ss, &Suite{Name: fmt.Sprintf("c18/bot-table%d/n%d/%s", i, b.n, blindName(b.blind)), Bound: bound, Weight: 3, Run: func(prefix []int) *vrt.Exec { return c18BotTable(prefix, b.n, b.stacks, b.blind) }})
			}
			for k := 1; k <= 8; k++ {
				k := k
				ss = append(ss, &Suite{Name: fmt.Sprintf("c18/bot-table-outside-reserve/n2/at-update-%d", k), Bound: 1, Weight: 3, Run: func(prefix []int) *vrt.Exec {
					return c18BotTableX(prefix, 2, []int64{6, 6}, blindStd(), k, "reserve")
				}})
				// an add-on notifies after releasing the engine lock: a bot answering from inside the notification is fine
				ss = append(ss, &Suite{Name: fmt.Sprintf("c18/bot-table-outside-addon/n2/at-update-%d", k), Bound: 1, Weight: 3, Run: func(prefix []int) *vrt.Exec {
					return c18BotTableX(prefix, 2, []int64{6, 6}, blindStd(), k, "addon")
				}})
			}
			ss = append(ss, orderSuite("c18/delivery-order/within-hand", "bot", tier, false))
			ss = append(ss, orderSuite("c18/delivery-order/across-hands", "bot", tier, true))
			ss = append(ss, thinkingSuite("c18/delivery-order/late-while-thinking", tier))
			return ss
		},
	})
	register(&Check{
		ID: "C19", Level: "model_checking",
		Rule:        "every distinct snapshot published along the full hand trees of the configurations is shown to a fresh real player runner for every player id x status {running, idle, idle with one time-out behind it, suspended} x action time {0,1,10}s wired to a recording engine under a virtual clock; no call may arrive before the thinking time unless pass is the only option or the runner is suspended; then exactly one call: pass | ready | check | fold | pay of the posted size, never call/bet/raise/allin; nothing when the player is not asked; plus one long-lived runner taken through every sequence (depth 4 / 5) of 16 operations (three request classes x {time-out, answered by the player, Suspend while pending, superseded by a newer state}, fold by the player, external Idle / Suspend / Resume): at most one automatic action per request, exactly one when nobody answered, conservative, and early only when the reference status machine says suspended",
		Assumptions: []string{"the clock is virtual; calls are timestamped when they reach the recording engine"},
		Suites: func(tier string) []*Suite {
			var ss []*Suite
			for sh := 0; sh < shards; sh++ {
				ss = append(ss, actorNodeSuite(fmt.Sprintf("c19/nodes/shard%d", sh), tier, sh, shards, c19Node))
			}
			for sh := 0; sh < 8; sh++ {
				ss = append(ss, c19HistSuite(tier, sh, 8))
			}
			ss = append(ss, orderSuite("c19/delivery-order", "player", tier, true))
			return ss
		},
	})
	register(&Check{
		ID: "C20", Level: "model_checking",
		Rule:        "every distinct snapshot published along the full hand trees (all statuses and hand phases, showdown and fold-out endings) is handed, as the engine does, to 1-2 (quick) / 1-3 (thorough) real actors (observer, system observer, bot, player runner) attached in every order through the real table-engine adapter; a non-system observer's callback must not see deck, burned cards, hole cards or hand strength while the hand is not closed (folded players' afterwards), the engine's table must be byte-identical afterwards and the other actors' views untouched; plus the schedules (<= bound deviations) of a hand's opening window, whose snapshots are shown to a plain observer",
		Assumptions: []string{"snapshots are the tables passed to OnTableUpdated"},
		Suites: func(tier string) []*Suite {
			var ss []*Suite
			c20MaxActors = 2
			if tier == "thorough" {
				c20MaxActors = 3
			}
			for sh := 0; sh < shards; sh++ {
				ss = append(ss, actorNodeSuite(fmt.Sprintf("c20/nodes/shard%d", sh), tier, sh, shards, c20Node))
			}
			bound := 1
			if tier == "thorough" {
				bound = 2
			}
			ss = append(ss, &Suite{Name: "c20/opening-window", Bound: bound, Weight: 2, Run: c20OpeningWindow})
			// long-lived observer on real histories with table-level events in the middle of hands
			hb := 2
			if tier == "thorough" {
				hb = 3
			}
			cfgs := histConfigs(tier, []int{4}, []string{pt.CompetitionMode_CT}, []pt.TableBlindState{blindStd(), blindAnte()}, 2)
			for _, hc := range cfgs {
				hc.between = []string{"none", "arrive", "leave-busted"}
				hc.mid = []string{"none", "arrive", "sitout", "addon-part", "rebuy-part", "leave-sitout", "blind-raise", "pause"}
				hc.late = []string{"none", "arrive"}
			}
			ss = append(ss, histSuites("c20/live-observer/", cfgs, hb, func(h *hist) []Monitor { return []Monitor{newMonObserver(h.td)} })...)
			return ss
		},
	})
}
