package main

import (
	"fmt"
	"strings"

	pt "github.com/weedbox/pokertable"
	"verif.local/vrt"
)

func histSuites(prefix string, cfgs []*histCfg, bound int, mk func(h *hist) []Monitor) []*Suite {
	var ss []*Suite
	for _, hc := range cfgs {
		hc := hc
		ss = append(ss, &Suite{Name: prefix + hc.name, Bound: bound, Weight: hc.tcfg.Seats * hc.hands, Run: func(prefix []int) *vrt.Exec {
			return runHist(prefix, hc, vrt.Config{}, mk)
		}})
	}
	return ss
}

func init() {
	register(&Check{
		ID: "C05", Level: "model_checking",
		Rule:        "(a) the seat-manager BFS of C04 with a per-seat counter of consecutive hands missed, checking the waiting flag at every seating, that a dealt-in player with chips is never made to wait, and at most three missed hands; (b) multi-hand table histories per seat layout with arrivals (joined / sitting out) before and after the first hand and at the first wager request, busts (all-in lines with deck choice), re-buys and departures, all histories with at most `bound` non-default picks: at every open the dealt-in set must equal seated-in & chips & not-waiting (seat manager's flag), table and seat manager must agree, at least two are dealt in, a dealt-in player with chips who stays is dealt into the next hand, nobody eligible misses more than three hands; (c) the same oracle on histories in which a re-buy / add-on / arrival / departure of a bystander races the settlement of hand 1 (fine-mode schedule exploration)",
		Assumptions: []string{"stacks 3..12; blinds 1/2", "the waiting flag is read from the seat manager through the build-tagged accessor"},
		Suites: func(tier string) []*Suite {
			bound, hands := 2, 3
			if tier == "thorough" {
				bound, hands = 3, 6
			}
			cfgs := layoutConfigs(tier, hands, []pt.TableBlindState{blindStd()})
			for _, hc := range cfgs {
				hc.between = []string{"none", "arrive", "sitout", "rebuy", "addon-busted", "leave-busted", "leave-live"}
				hc.mid = []string{"none", "arrive", "rebuy-part", "leave-sitout"}
				hc.between2 = true
			}
			ss := histSuites("c05/", cfgs, bound, func(h *hist) []Monitor { return []Monitor{newMonC05()} })
			ss = append(ss, raceSuites("c05/", tier, true, func(h *hist) []Monitor { return []Monitor{newMonC05()} })...)
			seat := filterViolations(seatSuites(tier, true), func(k string) bool { return strings.HasPrefix(k, "C05:") })
			for _, s := range seat {
				s.Name = "c05/" + s.Name
			}
			return append(ss, seat...)
		},
	})
	register(&Check{
		ID: "C06", Level: "model_checking",
		Rule:        "multi-hand table histories per seat layout (default rule) reaching live/dead dealer, live/dead small blind, heads-up and heads-up<->ring transitions with sitting-out players in gaps; at every open the labels are compared with a reference labelling (slots = dealt-in players + dead dealer / dead SB seats, standard order for the slot count clockwise from the BB seat), uniqueness / coverage are checked, the first playing snapshot's hand-engine positions must equal the labels (extra dealer on entry 0 when no dealt-in player holds it), and at settlement the next-BB order must list the players with chips clockwise from the seat after the BB",
		Assumptions: []string{"default rule only (as the property states)", "2..5 dealt in on 2..5 seats quick; up to 10 on 10 seats thorough"},
		Suites: func(tier string) []*Suite {
			bound, hands := 2, 4
			if tier == "thorough" {
				bound, hands = 3, 5
			}
			cfgs := layoutConfigs(tier, hands, []pt.TableBlindState{blindStd()})
			for _, hc := range cfgs {
				hc.between = []string{"none", "arrive", "sitout", "rebuy", "leave-busted", "leave-live"}
				hc.mid = []string{"none", "arrive", "leave-sitout"}
				hc.between2 = true
			}
			ss := histSuites("c06/", cfgs, bound, func(h *hist) []Monitor { return []Monitor{newMonC06()} })
			// label-table sweep: every number of dealt-in players 2..10 (all present) on 10 seats, two fold-out hands,
			// at most one departure / bust-free change in between (a departure of the dealer or SB gives a dead slot,
			// so every slot count is reached without, with one and with two dead seats)
			var sweep []*histCfg
			for k := 2; k <= 10; k++ {
				tc := defaultCfg(10)
				var init []seatSpec
				for i := 0; i < k; i++ {
					init = append(init, seatSpec{id: string(rune('a' + i)), seat: (i * 10) / k, chips: 9, joined: true})
				}
				sweep = append(sweep, &histCfg{name: fmt.Sprintf("sweep/dealt-in-%d-on-10-seats", k), tcfg: tc, init: init, hands: 2,
					lines: []string{"foldout"}, newStack: 5, between: []string{"none", "leave-live"}, between2: true})
			}
			// two departures in one gap: dealer seat and SB seat both dead in the same hand
			return append(ss, histSuites("c06/", sweep, 2, func(h *hist) []Monitor { return []Monitor{newMonC06()} })...)
		},
	})
	register(&Check{
		ID: "C07", Level: "model_checking",
		Rule:        "multi-hand table histories with membership changes, blind updates (raise, break, resume), repeated set-up / start, external pause / close / release between hands, every settlement-finished policy; a status automaton is run over every notification and every quiescent GetTable(): only life-cycle edges (plus injected external ones), game count +1 per open, fresh game ids, no open while a hand state exists, per-hand fields reset at standby, no open after close/release between hands, on a break or with unset blinds; plus schedule exploration of CloseTable / ReleaseTable racing the continue step and the opening, and with an add-on holding the engine lock while the open trigger waits for it",
		Assumptions: []string{"external calls are placed at quiescent points between hands; schedule exploration of the asynchronous open-game trigger is covered by the gate harness (C09)"},
		Suites: func(tier string) []*Suite {
			bound, hands := 2, 4
			if tier == "thorough" {
				bound, hands = 3, 6
			}
			cfgs := histConfigs(tier, []int{3, 4}, []string{pt.CompetitionMode_CT, pt.CompetitionMode_MTT}, []pt.TableBlindState{blindStd(), blindAnte(), {Level: 0, Ante: 0, Dealer: 0, SB: 1, BB: 2}}, hands)
			for _, hc := range cfgs {
				hc.retry = []string{"none", "blind-lower", "blind-break", "blind-raise"}
				hc.between = []string{"none", "arrive", "rebuy", "leave-busted", "blind-raise", "blind-break", "blind-resume", "setup-again", "start-again", "pause", "close", "release"}
				hc.mid = []string{"none", "arrive", "blind-break", "blind-raise"}
				hc.late = []string{"none", "close", "release", "pause", "blind-break", "arrive", "leave-live"}
				hc.finish = []string{"all", "none", "first"}
				hc.panicsAreDiagnostics = true
			}
			// tables whose playing time runs out after the second hand (CT / cash): the last hand must still be
			// wrapped up (standby, per-hand fields reset) and no further hand opens
			for _, mode := range []string{pt.CompetitionMode_CT, pt.CompetitionMode_Cash, pt.CompetitionMode_MTT} {
				tc := defaultCfg(3)
				tc.Mode = mode
				tc.MaxDuration = 4
				cfgs = append(cfgs, &histCfg{name: "time-up-after-4s/" + mode, tcfg: tc, hands: 4,
					init:  []seatSpec{{id: "a", seat: 0, chips: 9, joined: true}, {id: "b", seat: 1, chips: 9, joined: true}, {id: "c", seat: 2, chips: 9, joined: true}},
					lines: []string{"foldout", "checkdown"}, decks: []string{"asc"}, newStack: 5,
					between: []string{"none", "arrive", "setup-again"}, finish: []string{"all", "none"}, panicsAreDiagnostics: true})
			}
			ss := append(histSuites("c07/", cfgs, bound, func(h *hist) []Monitor { return []Monitor{newMonC07(h)} }), c07SchedSuites(tier)...)
			return append(ss, tableRaceSuites("c07/", tier, []string{"close", "release"}, true, func(h *hist) []Monitor { return []Monitor{&monStopRace{h: h}} })...)
		},
	})
	register(&Check{
		ID: "C08", Level: "model_checking",
		Rule:        "chains of hands in which every subset of participants an all-in line + deck can bust is produced, with sitting-out / waiting / newly arrived players and every settlement-finished policy (all, none -> timeout, first only); after each settlement the driver makes no call other than the scripted signals and fires virtual timers: the table must pause iff (break or fewer players with chips than the minimum), otherwise with two seated-in players with chips the next hand must open not before the continue interval and not later than interval + open-game timeout; a table left in standby with nothing runnable and no timer is a wedge; plus schedule exploration of (i) arrivals issued back to back between hands against the join gate's own goroutine and (ii) a re-buy / add-on / arrival / departure of a bystander racing the settlement of hand 1",
		Assumptions: []string{"liveness is decided in virtual time: 'nothing runnable and no timer pending' is final", "continue interval 1 s, open-game timeout 2 s (hard-coded in CreateTable)"},
		Suites: func(tier string) []*Suite {
			bound, hands := 2, 4
			if tier == "thorough" {
				bound, hands = 3, 8
			}
			cfgs := layoutConfigs(tier, hands, []pt.TableBlindState{blindStd()})
			for _, hc := range cfgs {
				hc.between = []string{"none", "arrive", "sitout", "join-sitout", "rebuy", "addon-busted", "leave-busted", "leave-live", "blind-break"}
				hc.mid = []string{"none", "arrive", "sitout"}
				hc.late = []string{"none", "arrive", "join-sitout", "leave-live", "rebuy"}
				hc.retry = []string{"none", "join-sitout", "arrive", "rebuy"}
				hc.finish = []string{"all", "none", "first"}
			}
			// MTT tables carry a playing-time limit in their meta data that does not apply to them: the table must
			// deal on after it has elapsed (virtual time passes it during hand 2)
			for _, n := range []int{2, 3} {
				tc := defaultCfg(4)
				tc.Mode = pt.CompetitionMode_MTT
				tc.MaxDuration = 4
				var init []seatSpec
				for i, id := range []string{"a", "b", "c"}[:n] {
					init = append(init, seatSpec{id: id, seat: i, chips: 9, joined: true})
				}
				cfgs = append(cfgs, &histCfg{name: fmt.Sprintf("mtt-with-time-limit-4s/n%d", n), tcfg: tc, init: init, hands: hands,
					lines: []string{"foldout", "checkdown"}, decks: []string{"asc"}, newStack: 5,
					between: []string{"none", "arrive", "rebuy"}, finish: []string{"all", "none", "first"}})
			}
			ss := append(histSuites("c08/", cfgs, bound, func(h *hist) []Monitor { return []Monitor{newMonC08(h, 1)} }), c08SchedSuites(tier)...)
			return append(ss, raceSuites("c08/", tier, false, func(h *hist) []Monitor { return []Monitor{newMonC08(h, 1)} })...)
		},
	})
	register(&Check{
		ID: "C12", Level: "model_checking",
		Rule:        "multi-hand histories with blind updates (raise, lower, ante on/off, to break, from break) placed between hands and at the first wager request of a hand, plus tables created on a break; the level in force at open is the last update applied before the open; for the whole hand the hand engine's ante/blinds, the published hand level and the posted blinds must equal it, a later update changes only the table level, the next hand uses it, a break opens no hand and pauses the table after the current one; default-rule and short-deck tables; plus schedule exploration of UpdateBlind racing the opening of a hand and an update made from inside the hand's own opened notification",
		Assumptions: []string{"stacks 3..15; levels 1/2, +ante 1, dealer blind 2 (short deck)"},
		Suites: func(tier string) []*Suite {
			bound, hands := 3, 3
			if tier == "thorough" {
				bound, hands = 4, 5
			}
			blinds := []pt.TableBlindState{blindStd(), blindAnte(), {Level: -1, Ante: 0, Dealer: 0, SB: 1, BB: 2}, {Level: 0, Ante: 0, Dealer: 0, SB: 1, BB: 2}}
			cfgs := histConfigs(tier, []int{3, 4}, []string{pt.CompetitionMode_CT, pt.CompetitionMode_MTT}, blinds, hands)
			for _, hc := range cfgs {
				hc.retry = []string{"none", "blind-lower", "blind-break", "blind-ante"}
				hc.between = []string{"none", "blind-raise", "blind-lower", "blind-ante", "blind-break", "blind-resume"}
				hc.mid = []string{"none", "blind-raise", "blind-lower", "blind-ante", "blind-break"}
				hc.late = []string{"none", "blind-raise", "blind-ante", "blind-break"}
				hc.opened = []string{"none", "blind-raise", "blind-ante", "blind-break"}
				hc.lines = []string{"foldout", "checkdown"}
				hc.decks = []string{"asc"}
			}
			// short-deck tables: ante + dealer blind, no small / big blind (the hand options are built on another path)
			for _, seats := range []int{3, 4} {
				tc := defaultCfg(seats)
				tc.Rule = pt.CompetitionRule_ShortDeck
				tc.Blind = pt.TableBlindState{Level: 1, Ante: 1, Dealer: 2, SB: 0, BB: 0}
				tc.Deck = "plain"
				var init []seatSpec
				for i := 0; i < 3; i++ {
					init = append(init, seatSpec{id: string(rune('a' + i)), seat: i, chips: []int64{9, 12, 15}[i], joined: true})
				}
				cfgs = append(cfgs, &histCfg{name: fmt.Sprintf("seats%d/short-deck/ante1-dealer2", seats), tcfg: tc, init: init, hands: hands,
					lines: []string{"foldout"}, decks: []string{"plain"}, newStack: 5,
					between: []string{"none", "blind-raise", "blind-ante", "blind-break", "blind-resume"}, mid: []string{"none", "blind-raise", "blind-ante"}})
			}
			ss := append(histSuites("c12/", cfgs, bound, func(h *hist) []Monitor { return []Monitor{newMonC12(h)} }), c12SchedSuites(tier)...)
			return append(ss, tableRaceSuites("c12/", tier, []string{"blind-raise", "blind-ante", "blind-break"}, true, func(h *hist) []Monitor { return []Monitor{newMonC12(h)} })...)
		},
	})
}
