package main

// C01 — chips are conserved by hands, top-ups and departures (TABLE histories).
// C02 — a hand's seat numbers denote the same players from open to settlement.

import (
	"fmt"

	pt "github.com/weedbox/pokertable"
	"verif.local/vrt"
)

func histConfigs(tier string, seatsList []int, modes []string, blinds []pt.TableBlindState, hands int) []*histCfg {
	var out []*histCfg
	for _, seats := range seatsList {
		for _, mode := range modes {
			for _, b := range blinds {
				tc := defaultCfg(seats)
				tc.Mode = mode
				tc.Blind = b
				n := 3
				if seats < 3 {
					n = seats
				}
				stacks := []int64{3, 7, 12}
				var init []seatSpec
				for i := 0; i < n; i++ {
					init = append(init, seatSpec{id: string(rune('a' + i)), seat: i, chips: stacks[i], joined: true})
				}
				out = append(out, &histCfg{
					name: fmt.Sprintf("seats%d/%s/%s", seats, mode, blindName(b)), tcfg: tc, init: init, hands: hands,
					lines: []string{"foldout", "checkdown", "allin"}, decks: []string{"asc", "desc", "tie"}, newStack: 5,
				})
				if b == blindStd() && (mode == pt.CompetitionMode_MTT || len(modes) == 1) {
					// the same table with its first players handed to CreateTable in the table setting
					out = append(out, &histCfg{
						name: fmt.Sprintf("seats%d/%s/%s/preset-players", seats, mode, blindName(b)), tcfg: tc, init: init, hands: hands, preset: true,
						lines: []string{"foldout", "checkdown", "allin"}, decks: []string{"asc", "desc", "tie"}, newStack: 5,
					})
				}
				if b == blindStd() && mode == pt.CompetitionMode_CT && seats >= 4 {
					// a table that needs three players with chips to go on
					tc3 := tc
					tc3.MinPlayers = 3
					out = append(out, &histCfg{
						name: fmt.Sprintf("seats%d/%s/%s/min3", seats, mode, blindName(b)), tcfg: tc3, init: init, hands: hands,
						lines: []string{"foldout", "checkdown", "allin"}, decks: []string{"asc", "desc", "tie"}, newStack: 5,
					})
				}
			}
		}
	}
	return out
}

func init() {
	register(&Check{
		ID: "C01", Level: "model_checking",
		Rule:        "multi-hand histories on a fresh real table per (seat count, mode, blind structure): every hand picks a line (fold-out default; check-down / everyone all-in with deck asc/desc/tie), at most one membership operation between hands (arrive, sit out = reserve without sitting in, re-buy of a busted player, top-up through PlayerReserve of any seated player, leave busted / live player, add-on) and one at the first wager request (arrive, sit out, add-on / re-buy of a participant, top-up of anybody, departure of a non-participant / participant); all histories with at most `bound` non-default picks are executed; a harness ledger (chips brought in - taken away) is compared with the bankroll sum whenever no hand is in progress and each settlement is checked against bankroll at open + result + top-ups; plus schedule exploration (fine mode) of a top-up racing the opening of a hand and of a re-buy / add-on / arrival / departure of a bystander racing the settlement of a hand (ledger only)",
		Assumptions: []string{"stacks 3/7/12, newcomers 5, add-ons 3; blinds 1/2 (+ante 1 / dealer-blind 2)", "membership operations are placed at quiescent points (status standby before the continue interval elapses, and the first wager request)"},
		Suites: func(tier string) []*Suite {
			bound, hands := 2, 3
			seats := []int{3, 4}
			if tier == "thorough" {
				bound, hands = 4, 4
				seats = []int{2, 3, 4, 6, 9}
			}
			var ss []*Suite
			for _, hc := range histConfigs(tier, seats, []string{pt.CompetitionMode_CT, pt.CompetitionMode_MTT, pt.CompetitionMode_Cash}, []pt.TableBlindState{blindStd(), blindAnte(), blindDealer()}, hands) {
				hc := hc
				hc.between = []string{"none", "arrive", "sitout", "rebuy", "topup", "leave-busted", "leave-live", "addon"}
				hc.mid = []string{"none", "arrive", "sitout", "addon-part", "rebuy-part", "topup", "leave-sitout", "leave-part"}
				ss = append(ss, &Suite{Name: "c01/" + hc.name, Bound: bound, Weight: hc.tcfg.Seats, Run: func(prefix []int) *vrt.Exec {
					return runHist(prefix, hc, vrt.Config{}, func(h *hist) []Monitor {
						mc := newMonHandChips("C01")
						mc.topup = func(hand int, id string) int64 { return h.topups[hand][id] }
						return []Monitor{&monLedger{h: h}, mc}
					})
				}})
			}
			ss = append(ss, raceSuites("c01/", tier, true, func(h *hist) []Monitor { return []Monitor{&monLedger{h: h}} })...)
			return append(ss, c01SchedSuites(tier)...)
		},
	})
}

// layouts for C02 / C05 / C06: players at given seats, some sitting out (reserved, not joined)
type layout struct {
	seats int
	specs []seatSpec
}

func layoutsFor(tier string) []layout {
	mk := func(seats int, desc ...string) layout {
		// desc: "a0:7" joined at seat 0 with 7 chips, "b2:5-" reserved only
		var l layout
		l.seats = seats
		for _, d := range desc {
			var id string
			var seat int
			var chips int64
			joined := true
			if d[len(d)-1] == '-' {
				joined = false
				d = d[:len(d)-1]
			}
			fmt.Sscanf(d[1:], "%d:%d", &seat, &chips)
			id = d[:1]
			l.specs = append(l.specs, seatSpec{id: id, seat: seat, chips: chips, joined: joined})
		}
		return l
	}
	ls := []layout{
		mk(3, "a0:3", "b1:7", "c2:12"),
		mk(4, "a0:3", "b1:7", "c3:12"),
		mk(4, "a0:3", "b1:7", "c2:12", "d3:5"),
		mk(5, "a0:3", "b2:7", "c3:12", "d1:5-"),
		mk(5, "a1:3", "b2:7", "c4:12", "d3:5-", "e0:4"),
		mk(2, "a0:3", "b1:7"),
		mk(4, "a0:7", "b1:7", "c3:5-"),
	}
	if tier == "thorough" {
		ls = append(ls,
			mk(6, "a0:3", "b1:7", "c2:12", "d3:5", "e4:4", "f5:6"),
			mk(6, "a0:3", "b2:7", "c4:12", "d1:5-", "e5:4"),
			mk(9, "a0:3", "b3:7", "c6:12", "d8:5"),
			mk(10, "a0:3", "b3:7", "c6:12", "d9:5"),
			mk(9, "a0:3", "b1:7", "c2:12", "d3:5", "e4:4", "f5:6", "g6:6", "h7:6", "i8:6"),
			mk(10, "a0:3", "b1:7", "c2:12", "d3:5", "e4:4", "f5:6", "g6:6", "h7:6", "i8:6", "j9:6"),
		)
	}
	return ls
}

func layoutConfigs(tier string, hands int, blinds []pt.TableBlindState) []*histCfg {
	var out []*histCfg
	for li, l := range layoutsFor(tier) {
		for _, b := range blinds {
			tc := defaultCfg(l.seats)
			tc.Blind = b
			out = append(out, &histCfg{
				name: fmt.Sprintf("layout%d-seats%d-n%d/%s", li, l.seats, len(l.specs), blindName(b)), tcfg: tc, init: l.specs, hands: hands,
				lines: []string{"foldout", "checkdown", "allin"}, decks: []string{"asc", "desc", "tie"}, newStack: 5,
			})
		}
	}
	return out
}

func init() {
	register(&Check{
		ID: "C02", Level: "model_checking",
		Rule:        "multi-hand histories per seat layout (2..5 players on 2..5 seats quick, up to 10 on 10 thorough; sitting-out players in gaps) in which busts (all-in lines with deck choice), departures and arrivals create dead buttons / dead small blinds and newcomers join while a hand runs; all histories with at most `bound` non-default picks; at every published snapshot of a hand entry i must denote the player it denoted at open, the list must be exactly the dealt-in players in clockwise order, the hand engine's starting stacks must be the bankrolls at open, accepted actions must be applied to the submitter's entry and results credited to that player only",
		Assumptions: []string{"stacks 3..12 chips; blinds 1/2", "a dealt-in player leaving mid-hand is outside this property's quantifier (it is C01's known finding)"},
		Suites: func(tier string) []*Suite {
			bound, hands := 2, 3
			if tier == "thorough" {
				bound, hands = 3, 4
			}
			var ss []*Suite
			for _, hc := range layoutConfigs(tier, hands, []pt.TableBlindState{blindStd(), blindAnte()}) {
				hc := hc
				hc.between = []string{"none", "arrive", "sitout", "rebuy", "leave-busted", "leave-live"}
				hc.mid = []string{"none", "arrive", "sitout", "leave-sitout", "rebuy-part"}
				ss = append(ss, &Suite{Name: "c02/" + hc.name, Bound: bound, Weight: hc.tcfg.Seats, Run: func(prefix []int) *vrt.Exec {
					return runHist(prefix, hc, vrt.Config{}, func(h *hist) []Monitor {
						mc := newMonHandChips("C02")
						mc.topup = func(hand int, id string) int64 { return h.topups[hand][id] }
						return []Monitor{mc}
					})
				}})
			}
			// short-deck tables (the hand's player list is built on another path): seats taken in an order that
			// differs from the seat order
			for _, seats := range []int{3, 5} {
				tc := defaultCfg(seats)
				tc.Rule = pt.CompetitionRule_ShortDeck
				tc.Blind = pt.TableBlindState{Level: 1, Ante: 1, Dealer: 2, SB: 0, BB: 0}
				tc.Deck = "plain"
				init := []seatSpec{{id: "a", seat: 0, chips: 9, joined: true}, {id: "b", seat: 2, chips: 12, joined: true}, {id: "c", seat: 1, chips: 15, joined: true}}
				hc := &histCfg{name: fmt.Sprintf("seats%d/short-deck/slots-a0-b2-c1", seats), tcfg: tc, init: init, hands: hands,
					lines: []string{"foldout"}, decks: []string{"plain"}, newStack: 5, between: []string{"none", "arrive", "leave-live"}}
				ss = append(ss, &Suite{Name: "c02/" + hc.name, Bound: bound, Weight: seats, Run: func(prefix []int) *vrt.Exec {
					return runHist(prefix, hc, vrt.Config{}, func(h *hist) []Monitor {
						mc := newMonHandChips("C02")
						mc.topup = func(hand int, id string) int64 { return h.topups[hand][id] }
						return []Monitor{mc}
					})
				}})
			}
			return ss
		},
	})
}
