package main

// C13 — a failing game backend never corrupts a hand (fault enumeration over backend calls).

import (
	"encoding/json"
	"fmt"
	"strings"

	"github.com/weedbox/pokerface"
	pt "github.com/weedbox/pokertable"
	"verif.local/vrt"
)

var playerCallKinds = map[string]bool{"Fold": true, "Check": true, "Call": true, "Allin": true, "Bet": true, "Raise": true, "Pass": true, "Pay": true}

// lineMixed: a deterministic script that exercises raise / call / fold / bet / check.
func lineMixed(td *TD, gs *pokerface.GameState, cp *pokerface.PlayerState) (string, int64) {
	n := 0
	for _, l := range td.log {
		for _, k := range []string{"fold(", "check(", "call(", "bet(", "raise(", "allin("} {
			if strings.HasPrefix(l, k) && strings.HasSuffix(l, "-><nil>") {
				n++
			}
		}
	}
	pattern := []string{"raise", "call", "call", "bet", "raise", "call", "fold", "check", "bet", "call", "check", "check"}
	want := pattern[n%len(pattern)]
	m := wagerMenu(gs, cp)
	for _, e := range m {
		if e[0].(string) == want {
			return want, e[1].(int64)
		}
	}
	return lineCheckDown(td, gs, cp)
}

type faultPlan struct {
	set map[[2]int]bool // (hand, ordinal in hand)
}

type c13Course struct {
	steps []string
	calls [][]beCall // per hand
}

// courseOf: the canonical course of a run: every published snapshot reduced to what the hand determines.
func courseOf(td *TD) []string {
	var out []string
	for _, s := range td.snaps {
		st := s.T.State
		var sb strings.Builder
		fmt.Fprintf(&sb, "%s gc%d ", st.Status, st.GameCount)
		for _, p := range st.PlayerStates {
			g, _ := json.Marshal(p.GameStatistics)
			fmt.Fprintf(&sb, "%s:%d:%v:%s ", p.PlayerID, p.Bankroll, p.Positions, g)
		}
		if gs := st.GameState; gs != nil {
			fmt.Fprintf(&sb, "| %s/%s cp%d w%d pots%d board%v ", gs.Status.Round, gs.Status.CurrentEvent, gs.Status.CurrentPlayer, gs.Status.CurrentWager, len(gs.Status.Pots), gs.Status.Board)
			for _, p := range gs.Players {
				fmt.Fprintf(&sb, "%d:%d:%d:%d:%v:%v:%v ", p.Idx, p.StackSize, p.Wager, p.Pot, p.Fold, p.Acted, p.AllowedActions)
			}
			if gs.Status.LastAction != nil {
				fmt.Fprintf(&sb, "last=%+v ", *gs.Status.LastAction)
			}
			if gs.Result != nil {
				for _, r := range gs.Result.Players {
					fmt.Fprintf(&sb, "res%d:%d:%d ", r.Idx, r.Final, r.Changed)
				}
			}
		}
		if la := st.LastPlayerGameAction; la != nil {
			fmt.Fprintf(&sb, "| la=%s/%s/%d", la.PlayerID, la.Action, la.Chips)
		}
		out = append(out, sb.String())
	}
	return out
}

type monC13 struct {
	baseMon
	plan      *faultPlan
	twin      []string
	engineHit []beCall
}

func (m *monC13) After(td *TD, ev *ActEvent) *Viol {
	if ev.Kind == "finish" {
		return nil
	}
	if ev.Err == nil {
		// "the caller gets the error": the backend call made for this action (the first call after the submission;
		// later ones belong to the engine's own steps) failed, yet the player's call returned nil
		if len(td.be.calls) > ev.BeforeCalls {
			if c := td.be.calls[ev.BeforeCalls]; c.Err == errInjected.Error() && playerCallKinds[c.Kind] {
				return &Viol{Key: "error-not-passed-on@" + c.Kind, Detail: fmt.Sprintf("backend call %s made for %s's %s failed with %q, the caller received nil", c.Kind, ev.ID, ev.Action, errInjected)}
			}
		}
		return nil
	}
	// the refusal must be the injected failure of a player-action call and leave no trace
	last := td.be.calls[len(td.be.calls)-1]
	injected := len(td.be.calls) > ev.BeforeCalls && last.Err == errInjected.Error()
	if !injected {
		return &Viol{Key: "unexpected-refusal@" + ev.Action + ev.Kind, Detail: fmt.Sprintf("%s %s by %s returned %v without an injected backend failure", ev.Kind, ev.Action, ev.ID, ev.Err)}
	}
	if ev.Err.Error() != errInjected.Error() {
		return &Viol{Key: "error-not-passed-on", Detail: fmt.Sprintf("backend call %s failed with %q, the caller received %q", last.Kind, errInjected, ev.Err)}
	}
	b, _ := json.Marshal(ev.Before)
	a, _ := json.Marshal(td.table())
	if string(a) != string(b) {
		return &Viol{Key: "failed-action-left-trace@" + last.Kind, Detail: fmt.Sprintf("backend %s failed for %s's %s, but the table changed\nbefore: %s\nafter:  %s", last.Kind, ev.ID, ev.Action, b, a)}
	}
	if td.be.applied != ev.BeforeApplied {
		return &Viol{Key: "failed-action-applied", Detail: "a failed call advanced the hand"}
	}
	return nil
}

func (m *monC13) End(td *TD) *Viol {
	// engine-performed calls that failed must have been reported through the error callback
	engineFailed := false
	for _, c := range td.be.calls {
		if c.Err == errInjected.Error() && !playerCallKinds[c.Kind] {
			engineFailed = true
			reported := false
			for _, e := range td.errs {
				if e == errInjected.Error() {
					reported = true
				}
			}
			if !reported {
				return &Viol{Key: "engine-failure-not-reported@" + c.Kind, Detail: fmt.Sprintf("backend %s (hand %d, call %d) failed inside a step the engine performs by itself; the table error callback was never invoked with it (errors reported: %v)", c.Kind, c.Hand, c.Ordinal, td.errs)}
			}
		}
	}
	if engineFailed {
		return nil // the hand cannot continue; its course is not compared
	}
	got := courseOf(td)
	if len(got) != len(m.twin) {
		return &Viol{Key: "course-differs", Detail: fmt.Sprintf("with the injected failures and retries the run published %d snapshots, the fault-free twin %d", len(got), len(m.twin))}
	}
	for i := range got {
		if got[i] != m.twin[i] {
			return &Viol{Key: "course-differs", Detail: fmt.Sprintf("snapshot %d differs from the fault-free twin\nfaulty: %s\ntwin:   %s", i, got[i], m.twin[i])}
		}
	}
	return nil
}

type c13Cfg struct {
	hc   *handCfg
	twin *c13Course
}

func c13Configs(tier string) []*c13Cfg {
	var out []*c13Cfg
	type lay struct {
		ids    []string
		seats  []int
		stacks []int64
	}
	lays := []lay{
		{[]string{"a", "b"}, []int{0, 2}, []int64{9, 12}},
		{[]string{"a", "b", "c"}, []int{0, 1, 3}, []int64{9, 7, 12}},
	}
	lines := map[string]Line{"checkdown": lineCheckDown, "foldout": lineFoldOut, "allin": lineAllIn, "mixed": lineMixed}
	for li, l := range lays {
		for _, b := range []pt.TableBlindState{blindStd(), blindAnte()} {
			for _, ln := range []string{"mixed", "checkdown", "foldout", "allin"} {
				if tier == "quick" && b.Ante > 0 && (ln == "foldout" || ln == "allin") {
					continue
				}
				tc := defaultCfg(5)
				tc.Blind = b
				hc := &handCfg{name: fmt.Sprintf("lay%d/%s/%s", li, blindName(b), ln), tcfg: tc, ids: l.ids, seatOf: l.seats, stacks: l.stacks, hands: 2, line: lines[ln]}
				hc.pol = HandPolicy{Finish: "all"}
				out = append(out, &c13Cfg{hc: hc})
			}
		}
	}
	return out
}

func (c *c13Cfg) run(prefix []int, maxFaults int) *vrt.Exec {
	if c.twin == nil {
		var course c13Course
		x := runHandCfg(nil, c.hc, vrt.Config{}, func(td *TD) []Monitor {
			return []Monitor{&twinRecorder{out: &course}}
		})
		if x.Fatal != "" || x.Violation != "" {
			return &vrt.Exec{Fatal: "fault-free twin failed: " + x.Fatal + x.Violation + x.Detail}
		}
		c.twin = &course
	}
	var plan faultPlan
	hc := *c.hc
	return runTable(prefix, vrt.Config{}, func(env *vrt.Env) (string, string, string) {
		// choose the fault plan: up to maxFaults (hand, ordinal) picks, or a run of k consecutive failures
		plan.set = map[[2]int]bool{}
		var flat [][2]int
		for h, calls := range c.twin.calls {
			for _, cl := range calls {
				flat = append(flat, [2]int{h + 1, cl.Ordinal})
			}
		}
		desc := ""
		mode := env.Choose(2, "fault-mode")
		if mode == 0 {
			last := -1
			for f := 0; f < maxFaults; f++ {
				rem := len(flat) - (last + 1)
				if rem <= 0 {
					break
				}
				pick := env.Choose(rem+1, "fault-at")
				if pick == 0 {
					break
				}
				last = last + pick
				plan.set[flat[last]] = true
				desc += fmt.Sprintf(" fail(hand%d,call%d)", flat[last][0], flat[last][1])
			}
		} else {
			// the same call fails k times in a row (2 or 3): the retries are the following calls
			pick := env.Choose(len(flat), "fault-at")
			k := 2 + env.Choose(2, "repeat")
			for i := 0; i < k; i++ {
				plan.set[[2]int{flat[pick][0], flat[pick][1] + i}] = true
			}
			desc = fmt.Sprintf(" fail(hand%d,call%d x%d)", flat[pick][0], flat[pick][1], k)
		}
		td, err := newTD(env, hc.tcfg)
		if err != nil {
			return "", "harness-create-table", err.Error()
		}
		td.be.fail = func(h int, kind string, ord, kindOrd int) bool { return plan.set[[2]int{h, ord}] }
		if err := td.seatIn(hc.ids, hc.seatOf, hc.stacks); err != nil {
			return "", "harness-seat", err.Error()
		}
		r := &runner{td: td, hc: &hc, wagerN: map[int]int{}, betweenDone: map[int]bool{}, lateDone: map[int]bool{}, retryDone: map[int]bool{}}
		r.mons = []Monitor{&monC13{plan: &plan, twin: c.twin.steps}}
		td.start()
		res := r.run()
		var kinds []string
		for _, cl := range td.be.calls {
			if cl.Err != "" {
				kinds = append(kinds, cl.Kind)
			}
		}
		outcome := fmt.Sprintf("%s%s failed=%v errs=%d %s", res, desc, kinds, len(td.errs), td.status())
		if r.viol != nil {
			return outcome, r.viol.Key, r.viol.Detail + "\nconfig: " + hc.name + "\nfaults:" + desc + "\nops: " + td.opsString()
		}
		return outcome, "", ""
	})
}

type twinRecorder struct {
	baseMon
	out *c13Course
}

func (t *twinRecorder) End(td *TD) *Viol {
	t.out.steps = courseOf(td)
	byHand := map[int][]beCall{}
	maxH := 0
	for _, c := range td.be.calls {
		byHand[c.Hand] = append(byHand[c.Hand], c)
		if c.Hand > maxH {
			maxH = c.Hand
		}
	}
	for h := 1; h <= maxH; h++ {
		t.out.calls = append(t.out.calls, byHand[h])
	}
	return nil
}

func init() {
	register(&Check{
		ID: "C13", Level: "fault_enumeration",
		Rule:        "for each configuration (2-3 players, blinds with/without ante) and line (mixed raise/call/fold/bet script, check-down, fold-out, all-in) two hands are first played fault-free (the twin, recording every backend call); then every plan of up to `maxFaults` failing backend calls chosen by (hand, ordinal), and every plan in which one call fails 2 or 3 times in a row, is executed with the driver resubmitting refused actions; a case is non-trivial when at least one injected failure fired; distinct cases are distinct (plan, failed kinds) observations",
		Assumptions: []string{"the backend fails by returning an error and no state (as the GameBackend contract allows)", "after a failure inside an engine-performed step the hand cannot continue (the engine has no retry); only the reporting clause is checked for such plans"},
		Suites: func(tier string) []*Suite {
			maxFaults := 2
			if tier == "thorough" {
				maxFaults = 3
			}
			var ss []*Suite
			for _, c := range c13Configs(tier) {
				c := c
				ss = append(ss, &Suite{Name: "c13/" + c.hc.name, Bound: 0, Weight: len(c.hc.ids), Run: func(prefix []int) *vrt.Exec { return c.run(prefix, maxFaults) }})
			}
			return ss
		},
	})
}
