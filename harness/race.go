package main

// Racing-settlement suites (shared by C01, C03, C05, C08).
//
// The engine runs a hand's settlement and the continue step (bankroll write-back, per-hand reset, refresh of
// the seat manager's has-chips flags, scheduling of the next hand) in the hand's updater goroutine WITHOUT the
// engine lock, while PlayerReserve / PlayerRedeemChips / PlayersLeave / PlayerJoin run in the caller's
// goroutine. The history suites place external operations at quiescent points only; here one operation is
// issued at the same time as the answer that ends hand 1, both as threads of an exploration window in fine
// mode (a scheduling point before every Go statement of the pokertable packages), and every schedule within
// the deviation bound is executed. After the window the history goes on by itself (hand 2 must be dealt to
// whoever is eligible) under the ordinary monitors of the property.

import (
	"fmt"

	pt "github.com/weedbox/pokertable"
	"verif.local/vrt"
)

type raceLayout struct {
	name  string
	init  []seatSpec
	line  string
	deck  string
	nth   int
	seats int
}

func raceLayouts() []raceLayout {
	a5b9 := []seatSpec{{id: "a", seat: 0, chips: 5, joined: true}, {id: "b", seat: 1, chips: 9, joined: true}}
	withC := append(append([]seatSpec{}, a5b9...), seatSpec{id: "c", seat: 3, chips: 7, joined: false})
	three := []seatSpec{{id: "a", seat: 0, chips: 5, joined: true}, {id: "b", seat: 1, chips: 9, joined: true}, {id: "c", seat: 2, chips: 7, joined: true}}
	return []raceLayout{
		{"headsup-allin-a-busts", a5b9, "allin", "desc", 1, 4},
		{"headsup-allin-nobody-busts", a5b9, "allin", "asc", 1, 4},
		{"headsup-foldout+sitting-out-c", withC, "foldout", "asc", 0, 4},
		{"three-allin", three, "allin", "asc", 2, 4},
	}
}

func raceConfigs(tier string) []*histCfg {
	var out []*histCfg
	for _, l := range raceLayouts() {
		ops := []string{"rebuy:a", "rebuy:b", "addon:a", "arrive", "sitout"}
		for _, s := range l.init {
			if !s.joined {
				ops = append(ops, "leave:"+s.id, "rebuy:"+s.id)
			}
		}
		if tier == "quick" && l.name == "three-allin" {
			ops = []string{"rebuy:a", "arrive"}
		}
		for _, op := range ops {
			tc := defaultCfg(l.seats)
			out = append(out, &histCfg{
				name: fmt.Sprintf("race-settle/%s/%s", l.name, op), tcfg: tc, init: l.init, hands: 2,
				lines: []string{l.line}, decks: []string{l.deck}, finish: []string{"all"}, newStack: 3,
				race: &raceCfg{nth: l.nth, op: op},
			})
		}
	}
	return out
}

// tableRaceSuites: a table-level call (blind update; close / release) issued at the same time as the answer that
// ends hand 1, i.e. racing settleGame / continueGame, which run without the engine lock (C12, C07).
func tableRaceSuites(prefix string, tier string, ops []string, panicsAreDiagnostics bool, mk func(h *hist) []Monitor) []*Suite {
	bound := 1
	if tier == "thorough" {
		bound = 2
	}
	var ss []*Suite
	for _, l := range raceLayouts() {
		if l.name == "three-allin" && tier == "quick" {
			continue
		}
		for _, op := range ops {
			hc := &histCfg{
				name: fmt.Sprintf("race-settle/%s/%s", l.name, op), tcfg: defaultCfg(l.seats), init: l.init, hands: 2,
				lines: []string{l.line}, decks: []string{l.deck}, finish: []string{"all"}, newStack: 3,
				race: &raceCfg{nth: l.nth, op: op}, panicsAreDiagnostics: panicsAreDiagnostics,
			}
			ss = append(ss, &Suite{Name: prefix + hc.name, Bound: bound, Weight: 20, Run: func(prefix []int) *vrt.Exec {
				return runHist(prefix, hc, vrt.Config{FineAll: true}, mk)
			}})
		}
	}
	return ss
}

// raceSuites builds the suites for one property; mk supplies that property's monitors.
func raceSuites(prefix string, tier string, panicsAreDiagnostics bool, mk func(h *hist) []Monitor) []*Suite {
	bound := 1
	if tier == "thorough" {
		bound = 2
	}
	var ss []*Suite
	for _, hc := range raceConfigs(tier) {
		hc := hc
		hc.panicsAreDiagnostics = panicsAreDiagnostics
		ss = append(ss, &Suite{Name: prefix + hc.name, Bound: bound, Weight: 20, Run: func(prefix []int) *vrt.Exec {
			return runHist(prefix, hc, vrt.Config{FineAll: true}, mk)
		}})
	}
	return ss
}

// monRaceViol reports what race() judged right after its window.
type monRaceViol struct {
	baseMon
	h *hist
}

func (m *monRaceViol) Quiescent(td *TD, p Pending) *Viol { return m.h.raceViol }
func (m *monRaceViol) End(td *TD) *Viol                  { return m.h.raceViol }

// c15RaceSuites: a deadline extension requested at the same time as the asked player's answer.
func c15RaceSuites(tier string) []*Suite {
	// the lost update needs two preemptions (extension reads, hand writes, extension writes)
	bound := 2
	ns := []int{2}
	if tier == "thorough" {
		ns = []int{2, 3}
	}
	var ss []*Suite
	for _, n := range ns {
		n := n
		ids := []string{"a", "b", "c"}[:n]
		var init []seatSpec
		for i, id := range ids {
			init = append(init, seatSpec{id: id, seat: i, chips: 9, joined: true})
		}
		tc := defaultCfg(4)
		tc.ActionTime = 10
		hc := &histCfg{name: fmt.Sprintf("race-extend/n%d", n), tcfg: tc, init: init, hands: 1, lines: []string{"checkdown"}, decks: []string{"asc"}, finish: []string{"all"}, newStack: 3, advance: 3,
			race: &raceCfg{nth: 0, op: "extend"}}
		ss = append(ss, &Suite{Name: "c15/" + hc.name, Bound: bound, Weight: 20, Run: func(prefix []int) *vrt.Exec {
			return runHist(prefix, hc, vrt.Config{FineAll: true}, func(h *hist) []Monitor { return []Monitor{&monRaceViol{h: h}} })
		}})
	}
	return ss
}

// monStopRace (C07, racing-settlement suites): a close / release issued while hand 1 ends. The life-cycle
// clause is stated for a table left to itself, so the status automaton does not apply here; what applies is "no
// hand opens after the table has been closed or released between hands": if the call returned after hand 1's
// settlement had been published (the table was between hands), no hand 2 may ever be opened.
type monStopRace struct {
	baseMon
	h *hist
}

func (m *monStopRace) judge(td *TD) *Viol {
	if !m.h.externalStop {
		return nil
	}
	settledAt := -1
	for i, s := range td.snaps {
		st := s.T.State
		if settledAt < 0 && st.GameCount == 1 && st.Status == pt.TableStateStatus_TableGameSettled {
			settledAt = i
		}
		if st.GameCount >= 2 && st.Status == pt.TableStateStatus_TableGameOpened && settledAt >= 0 && settledAt < m.h.stopRetSeq && i >= m.h.stopRetSeq {
			return &Viol{Key: "opened-after-stop@racing-settlement", Detail: fmt.Sprintf("%s (the call returned after snapshot #%d; hand 1's settlement was snapshot #%d), yet hand %d was opened (snapshot #%d)", m.h.stopReason, m.h.stopRetSeq, settledAt, st.GameCount, i)}
		}
	}
	return nil
}
func (m *monStopRace) Quiescent(td *TD, p Pending) *Viol { return m.judge(td) }
func (m *monStopRace) End(td *TD) *Viol                  { return m.judge(td) }

// c14RaceSuites: a fold that closes a betting round while the hand goes on (three-handed: raise, call, fold by the
// big blind). PlayerFold records the fold round after the hand engine has accepted the fold; the hand's updater
// goroutine moves to the next round without the engine lock. The answer runs in a fine-mode thread, every
// schedule within the bound is executed.
func c14RaceSuites(tier string) []*Suite {
	bound := 1
	if tier == "thorough" {
		bound = 2
	}
	var ss []*Suite
	for _, n := range []int{3, 4} {
		n := n
		var init []seatSpec
		for i, id := range []string{"a", "b", "c", "d"}[:n] {
			init = append(init, seatSpec{id: id, seat: i, chips: 12, joined: true})
		}
		hc := &histCfg{name: fmt.Sprintf("race-fold/n%d", n), tcfg: defaultCfg(4), init: init, hands: 1, lines: []string{"raise-call-fold"}, decks: []string{"asc"}, finish: []string{"all"}, newStack: 3,
			race: &raceCfg{nth: 2, op: "noop"}}
		ss = append(ss, &Suite{Name: "c14/" + hc.name, Bound: bound, Weight: 20, Run: func(prefix []int) *vrt.Exec {
			return runHist(prefix, hc, vrt.Config{FineAll: true}, func(h *hist) []Monitor { return []Monitor{&monRaceViol{h: h}} })
		}})
	}
	return ss
}

// c10RaceSuites: an accepted fold / call / check that closes a betting round while the hand goes on, the
// answering call running against the hand's own updater goroutine (fine mode): the published action event
// must name the round and hand the action was made in.
func c10RaceSuites(tier string) []*Suite {
	bound := 1
	if tier == "thorough" {
		bound = 2
	}
	type sc struct {
		name string
		n    int
		line string
		nth  int
	}
	var ss []*Suite
	for _, c := range []sc{{"fold-n3", 3, "raise-call-fold", 2}, {"call-n2", 2, "raise-call-fold", 1}, {"check-n3", 3, "checkdown", 2}, {"check-n2", 2, "checkdown", 1}} {
		c := c
		var init []seatSpec
		for i, id := range []string{"a", "b", "c"}[:c.n] {
			init = append(init, seatSpec{id: id, seat: i, chips: 12, joined: true})
		}
		hc := &histCfg{name: "race-round-closing/" + c.name, tcfg: defaultCfg(4), init: init, hands: 1, lines: []string{c.line}, decks: []string{"asc"}, finish: []string{"all"}, newStack: 3,
			race: &raceCfg{nth: c.nth, op: "noop:event"}}
		ss = append(ss, &Suite{Name: "c10/" + hc.name, Bound: bound, Weight: 20, Run: func(prefix []int) *vrt.Exec {
			return runHist(prefix, hc, vrt.Config{FineAll: true}, func(h *hist) []Monitor { return []Monitor{&monRaceViol{h: h}} })
		}})
	}
	return ss
}

// monInvariant: the C03 bookkeeping invariant at every quiescent point.
type monInvariant struct{ baseMon }

func (m *monInvariant) Quiescent(td *TD, p Pending) *Viol { return membInvariant(td) }
func (m *monInvariant) End(td *TD) *Viol                  { return membInvariant(td) }

var _ = pt.UnsetValue
