package main

// C16 — concurrent callers see one-at-a-time behaviour.
// 2-3 harness threads issue one operation each against the real engine; the competing threads run
// in fine mode (every Go statement of the pokertable packages is a scheduling point) and all
// schedules within the preemption bound are executed.  The observation (per-call results, final
// canonical state) must be one that some sequential order of the same calls produces on a fresh
// instance (all orders x all random draws are computed first), and the bookkeeping invariant holds.

import (
	"fmt"
	"sort"
	"strings"

	pt "github.com/weedbox/pokertable"
	sm "github.com/weedbox/pokertable/seat_manager"
	"verif.local/vrt"
)

type concOp struct {
	name string
	do   func(td *TD) string
}

type concScenario struct {
	name    string
	seats   int
	setup   func(td *TD) bool // bring the table to the starting state (inside the world)
	ops     []concOp
	pre     func(td *TD)
	finish  func(td *TD) string // after all calls returned: play on / observe; returns extra observation
	seq     map[string]bool     // observations of sequential orders
	seqList []string
}

func opReserve(id string, seat int) concOp {
	return concOp{name: fmt.Sprintf("reserve(%s,%d)", id, seat), do: func(td *TD) string {
		return errStr(td.te.PlayerReserve(pt.JoinPlayer{PlayerID: id, RedeemChips: 5, Seat: seat}))
	}}
}
func opJoin(id string) concOp {
	return concOp{name: fmt.Sprintf("join(%s)", id), do: func(td *TD) string { return errStr(td.te.PlayerJoin(id)) }}
}
func opLeave(ids ...string) concOp {
	return concOp{name: fmt.Sprintf("leave(%v)", ids), do: func(td *TD) string { return errStr(td.te.PlayersLeave(ids)) }}
}
func opUpdate(join []pt.JoinPlayer, leave []string) concOp {
	var js []string
	for _, j := range join {
		js = append(js, fmt.Sprintf("%s@%d", j.PlayerID, j.Seat))
	}
	return concOp{name: fmt.Sprintf("update(+%v,-%v)", js, leave), do: func(td *TD) string {
		m, err := td.te.UpdateTablePlayers(join, leave)
		return sortedMap(m) + " " + errStr(err)
	}}
}
func opAct(id, kind string, amt int64) concOp {
	return concOp{name: fmt.Sprintf("%s(%s)", kind, id), do: func(td *TD) string {
		var err error
		switch kind {
		case "call":
			err = td.te.PlayerCall(id)
		case "fold":
			err = td.te.PlayerFold(id)
		case "check":
			err = td.te.PlayerCheck(id)
		case "allin":
			err = td.te.PlayerAllin(id)
		case "raise":
			err = td.te.PlayerRaise(id, amt)
		case "ready":
			err = td.te.PlayerReady(id)
		case "pay":
			err = td.te.PlayerPay(id, amt)
		}
		// which layer refuses a game action (table status, hand wrapper, hand engine) depends on how far the
		// engine's asynchronous processing of the previous call has got, and is not part of the property: a
		// refusal is a refusal
		if err != nil {
			return "refused"
		}
		return "<nil>"
	}}
}

func concObservation(td *TD, results []string, extra string) string {
	s := takeMembSnap(td)
	return strings.Join(results, " ; ") + " || " + s.key() + " || " + extra
}

func (sc *concScenario) world(prefix []int, cfg vrt.Config, body func(env *vrt.Env, td *TD) (string, string, string)) *vrt.Exec {
	return runTable(prefix, cfg, func(env *vrt.Env) (string, string, string) {
		tc := defaultCfg(sc.seats)
		td, err := newTD(env, tc)
		if err != nil {
			return "", "harness-create", err.Error()
		}
		if sc.setup != nil && !sc.setup(td) {
			return "", "harness-setup", "could not reach the starting state"
		}
		env.Settle()
		if sc.pre != nil {
			sc.pre(td)
		}
		return body(env, td)
	})
}

// sequential reference: every order of the calls, every random draw
func (sc *concScenario) computeSeq() string {
	sc.seq = map[string]bool{}
	n := len(sc.ops)
	perm := make([]int, n)
	for i := range perm {
		perm[i] = i
	}
	var fatal string
	var rec func(k int)
	rec = func(k int) {
		if k == n {
			// one-at-a-time callers do not wait for the engine's asynchronous processing between two calls: both the
			// back-to-back sequence and the one with the system run to quiescence in between are sequential references
			for _, settleBetween := range []bool{true, false} {
				settleBetween := settleBetween
				order := append([]int{}, perm...)
				ex := &vrt.Explorer{Bound: 0, Run: func(prefix []int) *vrt.Exec {
					return sc.world(prefix, vrt.Config{DataExplore: true, ShuffleDepth: 2}, func(env *vrt.Env, td *TD) (string, string, string) {
						res := make([]string, n)
						for _, i := range order {
							res[i] = sc.ops[i].name + "=" + sc.ops[i].do(td)
							if settleBetween {
								env.Settle()
							}
						}
						env.Settle()
						extra := ""
						if sc.finish != nil {
							extra = sc.finish(td)
						}
						if v := membInvariant(td); v != nil {
							return "", "sequential-invariant", v.Key + ": " + v.Detail
						}
						return concObservation(td, res, extra), "", ""
					})
				}}
				ex.OnExec = func(prefix []int, x *vrt.Exec) {
					if x.Violation == "" {
						if !sc.seq[x.Outcome] {
							sc.seq[x.Outcome] = true
							sc.seqList = append(sc.seqList, x.Outcome)
						}
					}
				}
				ex.Explore(nil, 0)
				if ex.Fatal != "" {
					fatal = ex.Fatal
				}
			}
			return
		}
		for i := k; i < n; i++ {
			perm[k], perm[i] = perm[i], perm[k]
			rec(k + 1)
			perm[k], perm[i] = perm[i], perm[k]
		}
	}
	rec(0)
	return fatal
}

func (sc *concScenario) run(prefix []int) *vrt.Exec {
	if sc.seq == nil {
		if f := sc.computeSeq(); f != "" {
			return &vrt.Exec{Fatal: "sequential reference: " + f}
		}
	}
	return sc.world(prefix, vrt.Config{DataExplore: true, ShuffleDepth: 2}, func(env *vrt.Env, td *TD) (string, string, string) {
		n := len(sc.ops)
		res := make([]string, n)
		env.WindowBegin()
		var ths []*vrt.Thread
		for i := range sc.ops {
			i := i
			ths = append(ths, env.Go(sc.ops[i].name, true, func() {
				res[i] = sc.ops[i].name + "=" + sc.ops[i].do(td)
			}))
		}
		env.Join(ths...)
		env.WindowEnd()
		env.Settle()
		extra := ""
		if sc.finish != nil {
			extra = sc.finish(td)
		}
		obs := concObservation(td, res, extra)
		var names []string
		for _, o := range sc.ops {
			names = append(names, o.name)
		}
		if v := membInvariant(td); v != nil {
			return obs, "invariant@" + v.Key, v.Detail + "\ncalls: " + strings.Join(names, " || ")
		}
		if !sc.seq[obs] {
			return obs, "not-sequentially-explainable", fmt.Sprintf("concurrent calls %s produced an observation that no one-at-a-time order produces\nobserved: %s\nsequential observations (%d):\n  %s", strings.Join(names, " || "), obs, len(sc.seqList), strings.Join(sc.seqList, "\n  "))
		}
		return obs, "", ""
	})
}

func concScenarios(tier string) []*concScenario {
	var out []*concScenario
	jp := func(id string, seat int) pt.JoinPlayer {
		return pt.JoinPlayer{PlayerID: id, RedeemChips: 5, Seat: seat}
	}
	seated := func(n int) func(td *TD) bool {
		return func(td *TD) bool {
			ids := []string{"a", "b", "c"}[:n]
			for i, id := range ids {
				if td.te.PlayerReserve(jp(id, i)) != nil || td.te.PlayerJoin(id) != nil {
					return false
				}
			}
			return true
		}
	}
	add := func(name string, seats int, setup func(td *TD) bool, ops ...concOp) {
		out = append(out, &concScenario{name: name, seats: seats, setup: setup, ops: ops})
	}
	for _, seats := range []int{2, 3, 4} {
		s := fmt.Sprintf("seats%d/", seats)
		add(s+"reserve-same-seat", seats, nil, opReserve("x", 0), opReserve("y", 0))
		add(s+"reserve-different-seats", seats, nil, opReserve("x", 0), opReserve("y", 1))
		add(s+"reserve-random-random", seats, nil, opReserve("x", -1), opReserve("y", -1))
		add(s+"reserve-fixed-random", seats, nil, opReserve("x", 1), opReserve("y", -1))
		add(s+"last-free-seat", seats, seated(seats-1), opReserve("x", -1), opReserve("y", -1))
		add(s+"same-player-twice", seats, nil, opReserve("x", -1), opReserve("x", -1))
		add(s+"rebuy-vs-leave", seats, seated(2), opReserve("a", -1), opLeave("a"))
		add(s+"leave-vs-leave", seats, seated(2), opLeave("a"), opLeave("a", "b"))
		add(s+"leave-vs-reserve-freed-seat", seats, seated(seats-1), opLeave("a"), opReserve("x", 0))
		add(s+"update-vs-reserve", seats, seated(1), opUpdate([]pt.JoinPlayer{jp("x", -1)}, []string{"a"}), opReserve("y", -1))
		// a reserved player confirming the seat (PlayerJoin feeds the engine's join gate) while others reserve
		reservedOnly := func(td *TD) bool { return td.te.PlayerReserve(jp("a", 0)) == nil }
		add(s+"join-vs-reserve", seats, reservedOnly, opJoin("a"), opReserve("x", -1))
		// (join vs leave is deliberately not a scenario: PlayerJoin is not among the calls the property quantifies
		// over and is not serialised with departures - see DESIGN.md 7)
		add(s+"update-vs-update", seats, seated(1), opUpdate([]pt.JoinPlayer{jp("x", 1)}, nil), opUpdate([]pt.JoinPlayer{jp("y", 1)}, []string{"a"}))
	}
	if tier == "thorough" {
		for _, seats := range []int{2, 3} {
			s := fmt.Sprintf("seats%d/3threads/", seats)
			add(s+"reserve-random-x3", seats, nil, opReserve("x", -1), opReserve("y", -1), opReserve("z", -1))
			add(s+"reserve-leave-update", seats, seated(1), opReserve("x", -1), opLeave("a"), opUpdate([]pt.JoinPlayer{jp("y", -1)}, nil))
		}
	}
	// game actions: at the first wager request of a hand
	atWager := func(n int) func(td *TD) bool {
		return func(td *TD) bool {
			if !seated(n)(td) {
				return false
			}
			td.start()
			pol := &HandPolicy{Line: lineCheckDown, Finish: "all"}
			return td.runUntil(pol, 200, func() bool { return td.pending().Kind == "wager" })
		}
	}
	playOut := func(td *TD) string {
		pol := &HandPolicy{Line: lineCheckDown, Finish: "all"}
		ok := td.playHand(pol, 1)
		t := td.table()
		var sum int64
		var bs []string
		for _, p := range t.State.PlayerStates {
			sum += p.Bankroll
			bs = append(bs, fmt.Sprintf("%s=%d", p.PlayerID, p.Bankroll))
		}
		return fmt.Sprintf("settled=%v sum=%d %v errs=%d", ok, sum, bs, len(td.errs))
	}
	for _, n := range []int{2, 3} {
		n := n
		mk := func(name string, ops func(cur, other string) []concOp) {
			sc := &concScenario{name: fmt.Sprintf("game/n%d/%s", n, name), seats: 4, setup: atWager(n), finish: playOut}
			sc.pre = func(td *TD) {
				td.memo("CUR", func() string { return resolveWho(td, "CUR") })
				td.memo("OTHER", func() string { return resolveWho(td, "OTHER") })
			}
			// the player to act is only known inside the world: resolve lazily
			sc.ops = ops("CUR", "OTHER")
			for i := range sc.ops {
				o := sc.ops[i]
				sc.ops[i] = concOp{name: o.name, do: func(td *TD) string { return o.do(td) }}
			}
			out = append(out, sc)
		}
		dyn := func(who, kind string) concOp {
			return concOp{name: fmt.Sprintf("%s(%s)", kind, strings.ToLower(who)), do: func(td *TD) string {
				id := td.memo(who, func() string { return resolveWho(td, who) })
				return opAct(id, kind, 0).do(td)
			}}
		}
		mk("same-action-twice", func(c, o string) []concOp { return []concOp{dyn("CUR", "call"), dyn("CUR", "call")} })
		mk("call-vs-fold-by-same-player", func(c, o string) []concOp { return []concOp{dyn("CUR", "call"), dyn("CUR", "fold")} })
		mk("right-and-wrong-player", func(c, o string) []concOp { return []concOp{dyn("CUR", "call"), dyn("OTHER", "call")} })
		if tier == "thorough" {
			mk("three-callers", func(c, o string) []concOp {
				return []concOp{dyn("CUR", "call"), dyn("OTHER", "call"), dyn("CUR", "fold")}
			})
		}
		if n == 2 {
			// every other kind of player action submitted twice at a point where the hand allows it once
			until := func(want func(td *TD) bool) func(td *TD) bool {
				return func(td *TD) bool {
					if !seated(2)(td) {
						return false
					}
					td.start()
					pol := &HandPolicy{Line: lineCheckDown, Finish: "all"}
					return td.runUntil(pol, 300, func() bool { return want(td) })
				}
			}
			canDo := func(kind string) func(td *TD) bool {
				return func(td *TD) bool {
					p := td.pending()
					if p.Kind != "wager" {
						return false
					}
					cp := p.GS.GetPlayer(p.GS.Status.CurrentPlayer)
					return hasStr(cp.AllowedActions, kind)
				}
			}
			for _, kind := range []string{"fold", "check", "allin", "raise"} {
				kind := kind
				sc := &concScenario{name: "game/n2/" + kind + "-twice", seats: 4, setup: until(canDo(kind)), finish: playOut}
				sc.pre = func(td *TD) { td.memo("CUR", func() string { return resolveWho(td, "CUR") }) }
				act := concOp{name: kind + "(cur)", do: func(td *TD) string {
					id := td.memo("CUR", func() string { return resolveWho(td, "CUR") })
					return opAct(id, kind, 4).do(td)
				}}
				sc.ops = []concOp{act, act}
				out = append(out, sc)
			}
			for _, req := range []string{"ready", "blinds"} {
				req := req
				kind := map[string]string{"ready": "ready", "blinds": "pay"}[req]
				sc := &concScenario{name: "game/n2/" + kind + "-by-both-players", seats: 4, setup: until(func(td *TD) bool { return td.pending().Kind == req }), finish: playOut}
				sc.pre = func(td *TD) {
					p := td.pending()
					td.memo("P0", func() string { return p.Players[0] })
					td.memo("P1", func() string { return p.Players[len(p.Players)-1] })
				}
				mkop := func(who string) concOp {
					return concOp{name: kind + "(" + strings.ToLower(who) + ")", do: func(td *TD) string {
						id := td.memos[who]
						r := opAct(id, kind, 2).do(td)
						td.responded[id] = true
						return r
					}}
				}
				sc.ops = []concOp{mkop("P0"), mkop("P1")}
				out = append(out, sc)
			}
		}
	}
	return out
}

// bare seat manager
func seatConcSuites(tier string, bound int) []*Suite {
	var ss []*Suite
	type smOp struct {
		name string
		do   func(s sm.SeatManager) string
	}
	assign := func(id string, seat int) smOp {
		return smOp{fmt.Sprintf("assign(%s,%d)", id, seat), func(s sm.SeatManager) string { return errStr(s.AssignSeats(map[string]int{id: seat})) }}
	}
	random := func(ids ...string) smOp {
		return smOp{fmt.Sprintf("random(%v)", ids), func(s sm.SeatManager) string { return errStr(s.RandomAssignSeats(ids)) }}
	}
	remove := func(id string) smOp {
		return smOp{"remove(" + id + ")", func(s sm.SeatManager) string { return errStr(s.RemoveSeats([]string{id})) }}
	}
	obs := func(s sm.SeatManager, res []string) string {
		st := sm.VerifGet(s)
		var parts []string
		for i, p := range st.Seats {
			if p != nil {
				parts = append(parts, fmt.Sprintf("%d=%s", i, p.ID))
			}
		}
		return strings.Join(res, ";") + "||" + strings.Join(parts, ",")
	}
	// a seat given to two players shows as a player who was told "assigned" but holds no seat afterwards
	doubleBooked := func(s sm.SeatManager, res []string) string {
		st := sm.VerifGet(s)
		held := map[string]bool{}
		for _, p := range st.Seats {
			if p != nil {
				held[p.ID] = true
			}
		}
		for _, r := range res {
			if !strings.HasSuffix(r, "=<nil>") || !(strings.HasPrefix(r, "assign") || strings.HasPrefix(r, "random")) {
				continue // only assignments can double-book
			}
			inside := r[strings.Index(r, "(")+1 : strings.Index(r, ")")]
			inside = strings.Trim(strings.Split(inside, ",")[0], "[]")
			for _, id := range strings.Fields(inside) {
				if !held[id] {
					return fmt.Sprintf("%s was assigned a seat (nil error) but holds none: its seat was given to somebody else", id)
				}
			}
		}
		return ""
	}
	scen := map[string][]smOp{
		"assign-same-seat":     {assign("x", 0), assign("y", 0)},
		"random-random":        {random("x"), random("y")},
		"random-vs-assign":     {random("x"), assign("y", 0)},
		"batch-random-random":  {random("x", "y"), random("z")},
		"remove-vs-assign":     {remove("p"), assign("x", 1)},
		"same-player-random-2": {random("x"), random("x")},
		"remove-vs-random":     {remove("p"), random("x")},
		"remove-vs-remove":     {remove("p"), remove("p")},
		"remove-vs-join":       {remove("p"), smOp{"join(p)", func(s sm.SeatManager) string { return errStr(s.JoinPlayers([]string{"p"})) }}},
		"remove-vs-has-chips":  {remove("p"), smOp{"haschips(p)", func(s sm.SeatManager) string { return errStr(s.UpdatePlayerHasChips("p", false)) }}},
	}
	names := make([]string, 0, len(scen))
	for k := range scen {
		names = append(names, k)
	}
	sort.Strings(names)
	for _, seats := range []int{2, 3} {
		for _, name := range names {
			ops := scen[name]
			seats := seats
			var seq map[string]bool
			var seqList []string
			mkSM := func() sm.SeatManager {
				s := sm.NewSeatManager(seats, sm.Rule_Default)
				s.AssignSeats(map[string]int{"p": 1})
				return s
			}
			computeSeq := func() {
				seq = map[string]bool{}
				for _, order := range [][]int{{0, 1}, {1, 0}} {
					order := order
					ex := &vrt.Explorer{Bound: 0, Run: func(prefix []int) *vrt.Exec {
						var o string
						res := vrt.Run(vrt.Config{Prefix: prefix, DataExplore: true, ShuffleDepth: 2}, func(env *vrt.Env) {
							s := mkSM()
							r := make([]string, len(ops))
							for _, i := range order {
								r[i] = ops[i].name + "=" + ops[i].do(s)
							}
							o = obs(s, r)
						})
						return &vrt.Exec{Trace: res.Trace, Outcome: o}
					}}
					ex.OnExec = func(p []int, x *vrt.Exec) {
						if !seq[x.Outcome] {
							seq[x.Outcome] = true
							seqList = append(seqList, x.Outcome)
						}
					}
					ex.Explore(nil, 0)
				}
			}
			ss = append(ss, &Suite{Name: fmt.Sprintf("c16/seat-manager/seats%d/%s", seats, name), Bound: bound, Weight: 1, Run: func(prefix []int) *vrt.Exec {
				if seq == nil {
					computeSeq()
				}
				var o, viol, detail string
				res := vrt.Run(vrt.Config{Prefix: prefix, DataExplore: true, ShuffleDepth: 2}, func(env *vrt.Env) {
					s := mkSM()
					r := make([]string, len(ops))
					env.WindowBegin()
					var ths []*vrt.Thread
					for i := range ops {
						i := i
						ths = append(ths, env.Go(ops[i].name, true, func() { r[i] = ops[i].name + "=" + ops[i].do(s) }))
					}
					env.Join(ths...)
					env.WindowEnd()
					o = obs(s, r)
					if d := doubleBooked(s, r); d != "" {
						viol, detail = "seat-manager-double-booking", d+"\nobserved: "+o
					} else if !seq[o] {
						viol, detail = "seat-manager-not-sequentially-explainable", fmt.Sprintf("observed: %s\nsequential observations:\n  %s", o, strings.Join(seqList, "\n  "))
					}
				})
				x := &vrt.Exec{Trace: res.Trace, Outcome: o, Violation: viol, Detail: detail}
				if res.ReplayError != "" || res.DriverPanic != "" {
					x.Fatal = res.ReplayError + res.DriverPanic
				}
				if res.Deadlock && viol == "" {
					x.Violation, x.Detail = "deadlock", strings.Join(res.Parked, "; ")
				}
				if len(res.Panics) > 0 && viol == "" {
					x.Violation, x.Detail = "panic@seat-manager", res.Panics[0]
				}
				return x
			}})
		}
	}
	return ss
}

func init() {
	register(&Check{
		ID: "C16", Level: "model_checking",
		Rule:        "closed scenarios of 2 (thorough also 3) caller threads, one call each (reserve same/different/random/last free seat, same player twice, re-buy vs leave, leave vs leave, leave vs reserve, batch update vs reserve / update; bare seat-manager assign / random assign / remove; game actions at a wager turn: same action twice, call vs fold by the player to act, right and wrong player) on 2-4 seats; the callers run with a scheduling point before every Go statement of the pokertable packages and every schedule with at most `bound` preemptions, times every random seat draw, is executed; the observation (per-call results + final canonical bookkeeping state, for game actions the played-out hand's bankrolls) must be produced by some sequential order of the same calls on a fresh instance, and the C03 invariant must hold",
		Assumptions: []string{"interleavings inside one Go statement and hardware memory ordering are not explored", "goroutines the engine starts itself (ready-group consumers, timers) are scheduled at synchronisation operations only"},
		Suites: func(tier string) []*Suite {
			bound := 1
			if tier == "thorough" {
				bound = 2
			}
			var ss []*Suite
			for _, sc := range concScenarios(tier) {
				sc := sc
				b := bound
				if len(sc.ops) >= 3 && b > 2 {
					b = 2
				}
				if sc.name == "seats2/join-vs-reserve" && b < 2 {
					b = 2 // the join gate's own goroutine is a third party: its dead-lock against a reservation needs two preemptions
				}
				ss = append(ss, &Suite{Name: "c16/" + sc.name, Bound: b, Weight: len(sc.ops), Run: sc.run})
			}
			return append(ss, seatConcSuites(tier, bound)...)
		},
	})
}

func resolveWho(td *TD, who string) string {
	cur := curPlayerID(td)
	if who == "CUR" {
		return cur
	}
	for _, p := range td.table().State.PlayerStates {
		if p.PlayerID != cur {
			return p.PlayerID
		}
	}
	return "ghost"
}
