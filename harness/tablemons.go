package main

// Monitors for the table-level properties C05 (eligibility), C06 (labels), C07 (life cycle),
// C08 (liveness after a hand), C12 (blinds in force).

import (
	"fmt"
	"reflect"
	"sort"
	"strings"

	pt "github.com/weedbox/pokertable"
)

// ---------------------------------------------------------------------------------------------
// C05

type monC05 struct {
	baseMon
	seenSnap    int
	lastDealt   map[string]bool // dealt in at the previous hand
	lastHand    int
	miss        map[string]int
	pendingOpen *Snap
	knownSeat   map[string]bool
}

func newMonC05() *monC05 {
	return &monC05{miss: map[string]int{}, knownSeat: map[string]bool{}}
}

func (m *monC05) Quiescent(td *TD, p Pending) *Viol {
	sm := pt.VerifSeatManager(td.te)
	t := td.table()
	// (5) waiting flag at seating: players the seat manager knows that we have not seen yet
	if sm != nil {
		seats := sm.Seats()
		n := t.Meta.TableMaxSeatCount
		for s := 0; s < n; s++ {
			sp := seats[s]
			if sp == nil {
				continue
			}
			if m.knownSeat[sp.ID] {
				continue
			}
			m.knownSeat[sp.ID] = true
			want := sm.IsInitPositions() && t.Meta.Rule != pt.CompetitionRule_ShortDeck && strictlyBetween(n, sm.CurrentDealerSeatID(), sm.CurrentBBSeatID(), s)
			// only meaningful when nothing rotated since the seating: the flag is checked at the first quiescent point after it
			if sp.IsBetweenDealerBB != want {
				return &Viol{Key: "waiting-flag-at-seating", Detail: fmt.Sprintf("%s seated at %d: waiting flag %v, expected %v (dealer %d, BB %d, positions set: %v)", sp.ID, s, sp.IsBetweenDealerBB, want, sm.CurrentDealerSeatID(), sm.CurrentBBSeatID(), sm.IsInitPositions())}
			}
		}
		for id := range m.knownSeat {
			found := false
			for _, sp := range seats {
				if sp != nil && sp.ID == id {
					found = true
				}
			}
			if !found {
				delete(m.knownSeat, id)
			}
		}
	}
	for ; m.seenSnap < len(td.snaps); m.seenSnap++ {
		s := td.snaps[m.seenSnap]
		st := s.T.State
		if st.Status != pt.TableStateStatus_TableGameOpened {
			continue
		}
		h := st.GameCount
		dealt := map[string]bool{}
		for _, pi := range st.GamePlayerIndexes {
			id := st.PlayerStates[pi].PlayerID
			if dealt[id] {
				return &Viol{Key: "dealt-in-twice", Detail: fmt.Sprintf("hand %d lists %s twice", h, id)}
			}
			dealt[id] = true
		}
		for _, p := range st.PlayerStates {
			if p.IsParticipated != dealt[p.PlayerID] {
				return &Viol{Key: "participated-vs-list", Detail: fmt.Sprintf("hand %d: %s participated=%v but in hand list=%v", h, p.PlayerID, p.IsParticipated, dealt[p.PlayerID])}
			}
		}
		if len(dealt) < 2 {
			return &Viol{Key: "opened-with-fewer-than-two", Detail: fmt.Sprintf("hand %d opened with %d dealt-in players", h, len(dealt))}
		}
		// (1) exactly the eligible players; the seat manager has not been touched since the open when this is the newest open
		if sm != nil && m.seenSnap >= len(td.snaps)-8 && t.State.GameCount == h {
			for _, p := range st.PlayerStates {
				var sp *struct{ in, chips, wait bool }
				for _, x := range sm.Seats() {
					if x != nil && x.ID == p.PlayerID {
						sp = &struct{ in, chips, wait bool }{x.IsIn, x.HasChips, x.IsBetweenDealerBB}
					}
				}
				if sp == nil {
					return &Viol{Key: "seat-manager-missing-player", Detail: fmt.Sprintf("hand %d: %s is on the table but unknown to the seat manager", h, p.PlayerID)}
				}
				if sp.in != p.IsIn || sp.chips != (p.Bankroll > 0) {
					// the table-side flags may have moved since the open (join / re-buy during the hand): compare with the snapshot only
					cur := td.player(p.PlayerID)
					if cur != nil && cur.IsIn == p.IsIn && (cur.Bankroll > 0) == (p.Bankroll > 0) {
						return &Viol{Key: "seat-manager-flags-differ", Detail: fmt.Sprintf("hand %d: %s table says in=%v chips=%v, seat manager says in=%v chips=%v", h, p.PlayerID, p.IsIn, p.Bankroll > 0, sp.in, sp.chips)}
					}
					continue
				}
				eligible := p.IsIn && p.Bankroll > 0 && !sp.wait
				if eligible != dealt[p.PlayerID] {
					return &Viol{Key: "dealt-in-not-eligible-set", Detail: fmt.Sprintf("hand %d: %s seated-in=%v bankroll=%d waiting=%v but dealt in=%v", h, p.PlayerID, p.IsIn, p.Bankroll, sp.wait, dealt[p.PlayerID])}
				}
			}
		}
		// (3) continuity
		if m.lastDealt != nil && h == m.lastHand+1 {
			for id := range m.lastDealt {
				p, _ := playerByID(s.T, id)
				if p != nil && p.Bankroll > 0 && p.IsIn && !dealt[id] {
					return &Viol{Key: "dealt-in-player-dropped", Detail: fmt.Sprintf("%s was dealt into hand %d, still has %d chips and is seated, but is not dealt into hand %d", id, m.lastHand, p.Bankroll, h)}
				}
			}
		}
		// (4) misses
		for _, p := range st.PlayerStates {
			if p.IsIn && p.Bankroll > 0 && !dealt[p.PlayerID] {
				m.miss[p.PlayerID]++
				if m.miss[p.PlayerID] > 3 {
					return &Viol{Key: "missed-more-than-three", Detail: fmt.Sprintf("%s is seated-in with chips and has missed %d hands in a row (hand %d)", p.PlayerID, m.miss[p.PlayerID], h)}
				}
			} else {
				m.miss[p.PlayerID] = 0
			}
		}
		m.lastDealt, m.lastHand = dealt, h
	}
	return nil
}

func (m *monC05) End(td *TD) *Viol { return m.Quiescent(td, Pending{}) }

// ---------------------------------------------------------------------------------------------
// C06

var stdOrder = map[int][]string{
	3:  {"dealer", "sb", "bb"},
	4:  {"dealer", "sb", "bb", "ug"},
	5:  {"dealer", "sb", "bb", "ug", "co"},
	6:  {"dealer", "sb", "bb", "ug", "hj", "co"},
	7:  {"dealer", "sb", "bb", "ug", "mp", "hj", "co"},
	8:  {"dealer", "sb", "bb", "ug", "ug2", "mp", "hj", "co"},
	9:  {"dealer", "sb", "bb", "ug", "ug2", "mp", "mp2", "hj", "co"},
	10: {"dealer", "sb", "bb", "ug", "ug2", "ug3", "mp", "mp2", "hj", "co"},
}

type monC06 struct {
	baseMon
	irregular     map[int]string
	seenSnap      int
	labels        map[int]map[string][]string // hand -> id -> labels at open
	engineChecked map[int]bool
}

func newMonC06() *monC06 {
	return &monC06{labels: map[int]map[string][]string{}, engineChecked: map[int]bool{}, irregular: map[int]string{}}
}

func sortedCopy(x []string) []string {
	y := append([]string{}, x...)
	sort.Strings(y)
	return y
}

func (m *monC06) Quiescent(td *TD, p Pending) *Viol { return unifyIrregular(m.quiescent(td, p)) }

func (m *monC06) quiescent(td *TD, p Pending) *Viol {
	for ; m.seenSnap < len(td.snaps); m.seenSnap++ {
		s := td.snaps[m.seenSnap]
		st := s.T.State
		if s.T.Meta.Rule == pt.CompetitionRule_ShortDeck {
			continue
		}
		h := st.GameCount
		n := s.T.Meta.TableMaxSeatCount
		switch st.Status {
		case pt.TableStateStatus_TableGameOpened:
			D, SB, BB := st.CurrentDealerSeat, st.CurrentSBSeat, st.CurrentBBSeat
			dealtAt := map[int]*pt.TablePlayerState{}
			for _, pl := range st.PlayerStates {
				if pl.IsParticipated {
					dealtAt[pl.Seat] = pl
				}
			}
			// irregular button configuration: a dealt-in player sits strictly between the dealer seat and the SB
			// seat, or strictly between the SB seat and the BB seat (the rotation left somebody "inside" the
			// blinds). No labelling can satisfy the property then; every label clause of such a hand is reported
			// under one key (see known_findings.json).
			irregular := ""
			if D != SB {
				for seat := range dealtAt {
					if strictlyBetween(n, D, SB, seat) || strictlyBetween(n, SB, BB, seat) {
						irregular = "@dealt-in-player-between-button-seats"
					}
				}
			}
			if D == BB {
				irregular = "@dealer-seat-is-bb-seat"
			}
			m.irregular[h] = irregular
			// reference: slots clockwise from the BB seat
			type slot struct {
				seat int
				pl   *pt.TablePlayerState
			}
			var slots []slot
			for i := 0; i < n; i++ {
				seat := (BB + i) % n
				if pl := dealtAt[seat]; pl != nil {
					slots = append(slots, slot{seat, pl})
				} else if seat == D || seat == SB {
					slots = append(slots, slot{seat, nil})
				}
			}
			want := map[string][]string{}
			if len(slots) == 2 {
				for i, sl := range slots {
					if sl.pl == nil {
						continue
					}
					if i == 0 {
						want[sl.pl.PlayerID] = []string{"bb"}
					} else {
						want[sl.pl.PlayerID] = []string{"dealer", "sb"}
					}
				}
			} else if std, ok := stdOrder[len(slots)]; ok {
				order := append(append([]string{}, std[2:]...), std[:2]...)
				for i, sl := range slots {
					if sl.pl != nil {
						want[sl.pl.PlayerID] = []string{order[i]}
					}
				}
			} else {
				return &Viol{Key: "slot-count" + irregular, Detail: fmt.Sprintf("hand %d: %d position slots (dealt in %d, D%d/SB%d/BB%d)", h, len(slots), len(dealtAt), D, SB, BB)}
			}
			got := map[string][]string{}
			used := map[string]string{}
			for _, pl := range st.PlayerStates {
				if len(pl.Positions) > 0 {
					got[pl.PlayerID] = pl.Positions
				}
				if !pl.IsParticipated && len(pl.Positions) > 0 {
					return &Viol{Key: "label-on-player-not-dealt-in" + irregular, Detail: fmt.Sprintf("hand %d: %s is not dealt in but labelled %v", h, pl.PlayerID, pl.Positions)}
				}
				if pl.IsParticipated && len(pl.Positions) == 0 {
					return &Viol{Key: "dealt-in-player-unlabelled" + irregular, Detail: fmt.Sprintf("hand %d: %s is dealt in (seat %d) but has no label; D%d/SB%d/BB%d", h, pl.PlayerID, pl.Seat, D, SB, BB)}
				}
				for _, l := range pl.Positions {
					if o, dup := used[l]; dup {
						return &Viol{Key: "label-shared" + irregular, Detail: fmt.Sprintf("hand %d: %s and %s are both labelled %s", h, o, pl.PlayerID, l)}
					}
					used[l] = pl.PlayerID
				}
			}
			if pl := dealtAt[BB]; pl == nil || strings.Join(pl.Positions, ",") != "bb" {
				return &Viol{Key: "bb-seat-label" + irregular, Detail: fmt.Sprintf("hand %d: BB seat %d holds %v", h, BB, describePlayer(dealtAt[BB]))}
			}
			if pl := dealtAt[SB]; pl != nil && !hasStr(pl.Positions, "sb") {
				return &Viol{Key: "sb-seat-label" + irregular, Detail: fmt.Sprintf("hand %d: dealt-in player %s in the SB seat %d is labelled %v (D%d/SB%d/BB%d)\n%s", h, pl.PlayerID, SB, pl.Positions, D, SB, BB, describeOpen(s.T))}
			}
			for id, w := range want {
				if strings.Join(sortedCopy(got[id]), ",") != strings.Join(sortedCopy(w), ",") {
					return &Viol{Key: "label-order" + irregular, Detail: fmt.Sprintf("hand %d: %s is labelled %v, the standard order for %d slots clockwise from BB gives %v (D%d/SB%d/BB%d, labels %v)", h, id, got[id], len(slots), w, D, SB, BB, got)}
				}
			}
			m.labels[h] = got
		case pt.TableStateStatus_TableGamePlaying:
			if m.engineChecked[h] || st.GameState == nil || m.labels[h] == nil {
				continue
			}
			m.engineChecked[h] = true
			dealerHeld := false
			for _, l := range m.labels[h] {
				if hasStr(l, "dealer") {
					dealerHeld = true
				}
			}
			for gi, gp := range st.GameState.Players {
				id := td.idOfGameIdx(s.T, gi)
				want := append([]string{}, m.labels[h][id]...)
				got := append([]string{}, gp.Positions...)
				if gi == 0 && !dealerHeld {
					want = append(want, "dealer")
				}
				if strings.Join(sortedCopy(got), ",") != strings.Join(sortedCopy(want), ",") {
					key := "engine-labels" + m.irregular[h]
					return &Viol{Key: key, Detail: fmt.Sprintf("hand %d: hand engine entry %d (%s) has positions %v, the table labels are %v\n%s", h, gi, id, got, want, describeOpen(s.T))}
				}
			}
		case pt.TableStateStatus_TableGameSettled:
			BB := st.CurrentBBSeat
			var want []string
			for i := 1; i <= n; i++ {
				seat := (BB + i) % n
				pi := st.SeatMap[seat]
				if pi >= 0 && st.PlayerStates[pi].Bankroll > 0 {
					want = append(want, st.PlayerStates[pi].PlayerID)
				}
			}
			if strings.Join(want, ",") != strings.Join(st.NextBBOrderPlayerIDs, ",") {
				return &Viol{Key: "next-bb-order", Detail: fmt.Sprintf("hand %d settled: next-BB order %v, players with chips clockwise from seat %d are %v", h, st.NextBBOrderPlayerIDs, (BB+1)%n, want)}
			}
		}
	}
	return nil
}

func (m *monC06) End(td *TD) *Viol { return m.Quiescent(td, Pending{}) }

// unify: every label clause violated in a hand whose button configuration is irregular is one finding
func unifyIrregular(v *Viol) *Viol {
	if v == nil {
		return nil
	}
	if i := strings.Index(v.Key, "@dealt-in-player-between-button-seats"); i >= 0 {
		return &Viol{Key: "labels-in-irregular-button-configuration@dealt-in-player-between-button-seats", Detail: "[" + v.Key[:i] + "] " + v.Detail}
	}
	if i := strings.Index(v.Key, "@dealer-seat-is-bb-seat"); i >= 0 {
		return &Viol{Key: "labels-in-irregular-button-configuration@dealer-seat-is-bb-seat", Detail: "[" + v.Key[:i] + "] " + v.Detail}
	}
	return v
}

func describeOpen(t *pt.Table) string {
	var parts []string
	for _, p := range t.State.PlayerStates {
		parts = append(parts, fmt.Sprintf("%s@%d chips=%d in=%v dealt=%v %v", p.PlayerID, p.Seat, p.Bankroll, p.IsIn, p.IsParticipated, p.Positions))
	}
	return fmt.Sprintf("D%d/SB%d/BB%d seats=%d list=%v players: %s", t.State.CurrentDealerSeat, t.State.CurrentSBSeat, t.State.CurrentBBSeat, t.Meta.TableMaxSeatCount, t.State.GamePlayerIndexes, strings.Join(parts, "; "))
}

func describePlayer(p *pt.TablePlayerState) string {
	if p == nil {
		return "no dealt-in player"
	}
	return fmt.Sprintf("%s labelled %v", p.PlayerID, p.Positions)
}

// ---------------------------------------------------------------------------------------------
// C07

type monC07 struct {
	baseMon
	seenSnap    int
	prev        pt.TableStateStatus
	prevGC      int
	gameIDs     map[string]int
	external    map[pt.TableStateStatus]bool // statuses an injected external call may have caused
	closedAt    int                          // snapshot seq after which close/release took effect between hands (0 = never)
	h           *hist
	blockedOpen string // non-empty: reason why no hand may open from now on
}

func newMonC07(h *hist) *monC07 {
	return &monC07{gameIDs: map[string]int{}, external: map[pt.TableStateStatus]bool{}, h: h}
}

func (m *monC07) allowed(from, to pt.TableStateStatus) bool {
	if from == to {
		return true
	}
	if m.external[to] {
		return true
	}
	if m.h.externalPause && (to == pt.TableStateStatus_TablePausing || from == pt.TableStateStatus_TablePausing) {
		return true
	}
	if m.h.externalStop && to == pt.TableStateStatus_TableClosed {
		return true
	}
	switch to {
	case pt.TableStateStatus_TableGameOpened:
		return from == pt.TableStateStatus_TableCreated || from == pt.TableStateStatus_TableBalancing || from == pt.TableStateStatus_TablePausing || from == pt.TableStateStatus_TableGameStandby || from == pt.TableStateStatus_TableGameSettled /* standby is never notified */ || from == ""
	case pt.TableStateStatus_TableGamePlaying:
		return from == pt.TableStateStatus_TableGameOpened
	case pt.TableStateStatus_TableGameSettled:
		return from == pt.TableStateStatus_TableGamePlaying
	case pt.TableStateStatus_TableGameStandby:
		return from == pt.TableStateStatus_TableGameSettled
	case pt.TableStateStatus_TablePausing:
		return from == pt.TableStateStatus_TableGameStandby || from == pt.TableStateStatus_TableGameSettled || from == pt.TableStateStatus_TableCreated || from == ""
	case pt.TableStateStatus_TableBalancing:
		return from == pt.TableStateStatus_TableCreated || from == ""
	case pt.TableStateStatus_TableCreated:
		return from == ""
	}
	return false
}

func (m *monC07) Quiescent(td *TD, p Pending) *Viol {
	for ; m.seenSnap < len(td.snaps); m.seenSnap++ {
		s := td.snaps[m.seenSnap]
		st := s.T.State
		if !m.allowed(m.prev, st.Status) {
			return &Viol{Key: fmt.Sprintf("status-transition@%s->%s", m.prev, st.Status), Detail: fmt.Sprintf("snapshot #%d: status moved %s -> %s", s.T.UpdateSerial, m.prev, st.Status)}
		}
		if st.Status == pt.TableStateStatus_TableGameOpened && m.prev != pt.TableStateStatus_TableGameOpened {
			if st.GameCount != m.prevGC+1 {
				return &Viol{Key: "game-count-step", Detail: fmt.Sprintf("hand opened with game count %d, previous count %d", st.GameCount, m.prevGC)}
			}
			if st.GameState != nil {
				return &Viol{Key: "opened-with-hand-state", Detail: fmt.Sprintf("hand %d opened while a hand state (event %s) still exists", st.GameCount, gsEvent(s.T))}
			}
			if m.h.externalStop {
				return &Viol{Key: "opened-after-stop", Detail: fmt.Sprintf("hand %d opened although %s between hands", st.GameCount, m.h.stopReason)}
			}
			if st.BlindState.IsBreaking() || !st.BlindState.IsSet() {
				return &Viol{Key: "opened-on-break-or-unset-blinds", Detail: fmt.Sprintf("hand %d opened with blind state %+v", st.GameCount, *st.BlindState)}
			}
		} else if st.GameCount != m.prevGC && !(st.Status == pt.TableStateStatus_TableGameOpened) {
			return &Viol{Key: "game-count-changed-outside-open", Detail: fmt.Sprintf("game count went %d -> %d in status %s", m.prevGC, st.GameCount, st.Status)}
		}
		if st.GameState != nil && st.GameState.GameID != "" {
			if g, ok := m.gameIDs[st.GameState.GameID]; ok && g != st.GameCount {
				return &Viol{Key: "game-id-reused", Detail: fmt.Sprintf("game id %s used by hands %d and %d", st.GameState.GameID, g, st.GameCount)}
			}
			m.gameIDs[st.GameState.GameID] = st.GameCount
		}
		m.prev, m.prevGC = st.Status, st.GameCount
	}
	t := td.table()
	st := t.State
	if !m.allowed(m.prev, st.Status) && !(m.prev == pt.TableStateStatus_TableGameSettled && st.Status == pt.TableStateStatus_TableGameStandby) {
		return &Viol{Key: fmt.Sprintf("status-transition@%s->%s", m.prev, st.Status), Detail: fmt.Sprintf("at a quiescent point the status is %s, the last notified status was %s", st.Status, m.prev)}
	}
	if st.Status == pt.TableStateStatus_TableGameStandby {
		zero := pt.NewPlayerGameStatistics()
		if st.GameState != nil || len(st.GamePlayerIndexes) != 0 || st.CurrentActionEndAt != 0 || st.LastPlayerGameAction != nil {
			return &Viol{Key: "standby-not-reset", Detail: fmt.Sprintf("standby with hand state %v, player list %v, deadline %d, last action %v", st.GameState != nil, st.GamePlayerIndexes, st.CurrentActionEndAt, st.LastPlayerGameAction)}
		}
		for _, pl := range st.PlayerStates {
			if len(pl.Positions) != 0 || !reflect.DeepEqual(pl.GameStatistics, zero) {
				return &Viol{Key: "standby-not-reset", Detail: fmt.Sprintf("standby but %s still has labels %v / statistics %+v", pl.PlayerID, pl.Positions, pl.GameStatistics)}
			}
		}
	}
	return nil
}

func (m *monC07) End(td *TD) *Viol {
	if v := m.Quiescent(td, Pending{}); v != nil {
		return v
	}
	// the run is over (nothing runnable, no timer): a settled hand must have been left behind
	st := td.table().State
	if td.env.PendingTimers() == 0 && st.Status == pt.TableStateStatus_TableGameSettled {
		return &Viol{Key: "never-left-settled", Detail: fmt.Sprintf("hand %d was settled, nothing is runnable and no timer is pending, but the table still shows status %s with the hand's state in place (it never reached standby)", st.GameCount, st.Status)}
	}
	return nil
}

// ---------------------------------------------------------------------------------------------
// C08

type monC08 struct {
	baseMon
	liveInAtContinue map[int]int  // hand -> seated-in players with chips when its continue interval elapsed
	pauseAtContinue  map[int]bool // hand -> pause condition (break or too few players with chips) at that moment
	seenSnap         int
	liveInAtGate     map[int]int   // hand -> seated-in players with chips at the last quiescent point before the next hand's gate completed
	settledAt        map[int]int64 // hand -> virtual time of settlement
	openedAt         map[int]int64
	interval         int64
	h                *hist
}

func newMonC08(h *hist, interval int) *monC08 {
	return &monC08{liveInAtGate: map[int]int{}, settledAt: map[int]int64{}, openedAt: map[int]int64{}, interval: int64(interval), h: h, liveInAtContinue: map[int]int{}, pauseAtContinue: map[int]bool{}}
}

func (m *monC08) liveIn(t *pt.Table) int {
	n := 0
	for _, pl := range t.State.PlayerStates {
		if pl.Bankroll > 0 && pl.IsIn {
			n++
		}
	}
	return n
}

func (m *monC08) Quiescent(td *TD, p Pending) *Viol {
	// the proviso "at least two seated-in players have chips" is evaluated when the continue interval elapses:
	// membership operations of the history are applied before it, auto-joins (17 s) come later
	cur := td.table()
	if t0, ok := m.settledAt[cur.State.GameCount]; ok {
		if _, done := m.liveInAtContinue[cur.State.GameCount]; !done && cur.State.Status == pt.TableStateStatus_TableGameStandby {
			if td.env.Now() >= t0+m.interval*1e9 || td.env.NextTimerDue() >= t0+m.interval*1e9 {
				m.liveInAtContinue[cur.State.GameCount] = m.liveIn(cur)
				alive := 0
				for _, pl := range cur.State.PlayerStates {
					if pl.Bankroll > 0 {
						alive++
					}
				}
				m.pauseAtContinue[cur.State.GameCount] = cur.State.BlindState.IsBreaking() || alive < cur.Meta.TableMinPlayerCount
			}
		}
	}
	// ... and again while the next hand's gate is waiting (set up, not everybody heard from, timeout pending): a
	// player who sits in during that wait is seated-in when the opening is decided
	if cur.State.Status == pt.TableStateStatus_TableGameStandby && cur.State.GameState == nil && td.env.Sleepers() > 0 {
		// the open was refused and tableGameOpen sleeps in its retry loop: the opening is still being decided
		m.liveInAtGate[cur.State.GameCount] = m.liveIn(cur)
	}
	if cur.State.Status == pt.TableStateStatus_TableGameStandby {
		if og := pt.VerifOpenGameManager(td.te); og != nil {
			gs := og.GetState()
			pendingGate := gs.GameCount == cur.State.GameCount+1 && len(gs.Participants) > 0
			if pendingGate {
				all := true
				for _, p := range gs.Participants {
					if !p.IsReady {
						all = false
					}
				}
				if !all {
					m.liveInAtGate[cur.State.GameCount] = m.liveIn(cur)
				}
			}
		}
	}
	for ; m.seenSnap < len(td.snaps); m.seenSnap++ {
		s := td.snaps[m.seenSnap]
		st := s.T.State
		switch st.Status {
		case pt.TableStateStatus_TableGameSettled:
			if _, ok := m.settledAt[st.GameCount]; !ok {
				m.settledAt[st.GameCount] = s.VTime
			}
		case pt.TableStateStatus_TableGameOpened:
			if _, ok := m.openedAt[st.GameCount]; !ok {
				m.openedAt[st.GameCount] = s.VTime
				if t0, ok := m.settledAt[st.GameCount-1]; ok {
					if s.VTime < t0+m.interval*1e9 {
						return &Viol{Key: "opened-before-continue-interval", Detail: fmt.Sprintf("hand %d opened %dms after hand %d settled, the continue interval is %ds", st.GameCount, (s.VTime-t0)/1e6, st.GameCount-1, m.interval)}
					}
					// open-game timeout is 2 s after the set-up (which happens when the interval elapses)
					if s.VTime > t0+(m.interval+2)*1e9 && m.liveInAtContinue[st.GameCount-1] >= 2 && !m.h.lateLeave[st.GameCount-1] {
						return &Viol{Key: "opened-late", Detail: fmt.Sprintf("hand %d opened %dms after hand %d settled; interval %ds + open-game timeout 2s", st.GameCount, (s.VTime-t0)/1e6, st.GameCount-1, m.interval)}
					}
				}
			}
		case pt.TableStateStatus_TablePausing:
			// pause iff break or fewer alive players than the table minimum
			alive := 0
			for _, pl := range st.PlayerStates {
				if pl.Bankroll > 0 {
					alive++
				}
			}
			if m.settledAt[st.GameCount] != 0 && !(st.BlindState.IsBreaking() || alive < s.T.Meta.TableMinPlayerCount) && !m.h.externalPause {
				return &Viol{Key: "paused-without-reason", Detail: fmt.Sprintf("after hand %d the table paused although the level is not a break and %d players have chips (minimum %d)", st.GameCount, alive, s.T.Meta.TableMinPlayerCount)}
			}
		}
	}
	return nil
}

// End: the runner stopped; if the table sits in standby it has wedged.
func (m *monC08) End(td *TD) *Viol {
	if v := m.Quiescent(td, Pending{}); v != nil {
		return v
	}
	t := td.table()
	st := t.State
	if _, settled := m.settledAt[st.GameCount]; !settled {
		return nil
	}
	if st.Status == pt.TableStateStatus_TableClosed || m.h.externalStop {
		return nil
	}
	alive, liveIn := 0, 0
	for _, pl := range st.PlayerStates {
		if pl.Bankroll > 0 {
			alive++
			if pl.IsIn {
				liveIn++
			}
		}
	}
	shouldPause := st.BlindState.IsBreaking() || alive < t.Meta.TableMinPlayerCount
	switch st.Status {
	case pt.TableStateStatus_TablePausing:
		if !shouldPause && !m.h.externalPause {
			return &Viol{Key: "paused-without-reason", Detail: fmt.Sprintf("after hand %d the table paused although the level is not a break and %d players have chips", st.GameCount, alive)}
		}
	case pt.TableStateStatus_TableGameStandby:
		if td.env.PendingTimers() > 0 {
			return nil // the runner stopped for its own reasons (hand budget), not a wedge
		}
		if shouldPause && m.pauseAtContinue[st.GameCount] {
			return &Viol{Key: "did-not-pause", Detail: fmt.Sprintf("after hand %d: break=%v, %d players with chips (minimum %d), but the table stays in standby", st.GameCount, st.BlindState.IsBreaking(), alive, t.Meta.TableMinPlayerCount)}
		}
		if liveIn >= 2 && (m.liveInAtContinue[st.GameCount] >= 2 || m.liveInAtGate[st.GameCount] >= 2) && !m.h.lateLeave[st.GameCount] {
			sm := pt.VerifSeatManager(td.te)
			og := pt.VerifOpenGameManager(td.te)
			return &Viol{Key: "wedged-in-standby", Detail: fmt.Sprintf("after hand %d settled the table stays in standby for ever: %d seated-in players have chips, no timer is pending and nothing is runnable\nblocked: %v\nseat manager: %s\ngate: %+v\nerrors: %v", st.GameCount, liveIn, td.env.Blocked(), seatManagerString(sm), og.GetState(), td.errs)}
		}
	}
	return nil
}

// ---------------------------------------------------------------------------------------------
// C12

type monC12 struct {
	baseMon
	seenSnap   int
	inForce    map[int]pt.TableBlindState
	h          *hist
	lastUpdate *pt.TableBlindState // the last UpdateBlind applied while no hand was open
	resolved   map[int]bool
}

func newMonC12(h *hist) *monC12 {
	return &monC12{inForce: map[int]pt.TableBlindState{}, h: h, resolved: map[int]bool{}}
}

func (m *monC12) Quiescent(td *TD, p Pending) *Viol {
	for ; m.seenSnap < len(td.snaps); m.seenSnap++ {
		s := td.snaps[m.seenSnap]
		st := s.T.State
		h := st.GameCount
		switch st.Status {
		case pt.TableStateStatus_TableGameOpened:
			if _, ok := m.inForce[h]; !ok {
				m.inForce[h] = *st.BlindState
				if st.BlindState.IsBreaking() {
					return &Viol{Key: "opened-on-break", Detail: fmt.Sprintf("hand %d opened while the blind level is a break", h)}
				}
				if want := m.h.curBlind; want != nil && *want != *st.BlindState && m.h.openedUpdate[h] == nil {
					return &Viol{Key: "update-lost", Detail: fmt.Sprintf("hand %d opened at %+v, the last blind update before it was %+v", h, *st.BlindState, *want)}
				}
			}
		case pt.TableStateStatus_TableGamePlaying, pt.TableStateStatus_TableGameSettled:
			f, ok := m.inForce[h]
			if !ok || st.GameState == nil {
				continue
			}
			meta := st.GameState.Meta
			// an update made from inside the hand's own opened callback races the open itself: either level may be
			// the one in force, but the hand must then stick to it
			if u := m.h.openedUpdate[h]; u != nil && !m.resolved[h] {
				m.resolved[h] = true
				if meta.Ante == u.Ante && meta.Blind.SB == u.SB && meta.Blind.BB == u.BB && meta.Blind.Dealer == u.Dealer {
					f = *u
					m.inForce[h] = f
				}
			}
			if meta.Ante != f.Ante || meta.Blind.Dealer != f.Dealer || meta.Blind.SB != f.SB || meta.Blind.BB != f.BB {
				return &Viol{Key: "hand-blinds-differ", Detail: fmt.Sprintf("hand %d is played at ante %d blinds %+v, the level in force when it opened was %+v", h, meta.Ante, meta.Blind, f)}
			}
			if st.GameBlindState != nil && *st.GameBlindState != f {
				return &Viol{Key: "published-hand-level-differs", Detail: fmt.Sprintf("hand %d publishes hand blind level %+v, in force at open %+v", h, *st.GameBlindState, f)}
			}
			// chips actually posted
			for _, gp := range st.GameState.Players {
				_ = gp
			}
			if la := st.GameState.Status.LastAction; la != nil {
				switch la.Type {
				case "big_blind":
					if la.Value != f.BB && !(la.Value < f.BB && st.GameState.Players[la.Source].StackSize == 0) {
						return &Viol{Key: "posted-blind-differs", Detail: fmt.Sprintf("hand %d: big blind posted %d, level in force %+v", h, la.Value, f)}
					}
				case "ante":
					if la.Value != f.Ante && !(la.Value < f.Ante && st.GameState.Players[la.Source].StackSize == 0) {
						return &Viol{Key: "posted-ante-differs", Detail: fmt.Sprintf("hand %d: ante posted %d, level in force %+v", h, la.Value, f)}
					}
				}
			}
		}
	}
	return nil
}

func (m *monC12) End(td *TD) *Viol {
	if v := m.Quiescent(td, Pending{}); v != nil {
		return v
	}
	t := td.table()
	// a break that arrives during the open-game wait only has to prevent the open (the pause decision was
	// taken when the continue interval elapsed)
	if t.State.BlindState.IsBreaking() && !m.h.breakDuringWait && t.State.Status == pt.TableStateStatus_TableGameStandby && td.env.PendingTimers() == 0 {
		return &Viol{Key: "break-did-not-pause", Detail: "the blind level is a break, the hand is over, but the table did not pause"}
	}
	return nil
}

func seatManagerString(sm interface {
	CurrentDealerSeatID() int
	CurrentSBSeatID() int
	CurrentBBSeatID() int
}) string {
	if sm == nil {
		return "nil"
	}
	return fmt.Sprintf("D%d/SB%d/BB%d", sm.CurrentDealerSeatID(), sm.CurrentSBSeatID(), sm.CurrentBBSeatID())
}
