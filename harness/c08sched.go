package main

// C08 (schedule part): players arriving between hands, their calls issued back to back by one caller.
// PlayerReserve re-arms the engine's join gate (a ready group with its own goroutine), PlayerJoin feeds it;
// the gate's goroutine runs concurrently with whatever the caller does next.  After hand 1 has been settled
// (table in standby, continue timer pending) one thread performs join(x) reserve(y) [thorough: reserve(x)
// join(x) reserve(y) join(y)] without waiting in between; every schedule of that thread against the
// engine's own goroutines within the deviation bound is executed.  Whatever the order, every call must
// return and the next hand must open by itself ("regardless of ... who arrived meanwhile").

import (
	"fmt"

	pt "github.com/weedbox/pokertable"
	"verif.local/vrt"
)

func c08Inject(prefix []int, long bool) *vrt.Exec {
	return runTable(prefix, vrt.Config{}, func(env *vrt.Env) (string, string, string) {
		td, err := newTD(env, defaultCfg(5))
		if err != nil {
			return "", "harness-create", err.Error()
		}
		td.seatIn([]string{"a", "b"}, []int{0, 1}, []int64{9, 9})
		td.start()
		pol := &HandPolicy{Line: lineFoldOut, Finish: "all"}
		if !td.runUntil(pol, 300, func() bool {
			return td.table().State.GameCount == 1 && td.status() == pt.TableStateStatus_TableGameStandby
		}) {
			return "", "harness-base", "hand 1 did not settle"
		}
		jp := func(id string, seat int) pt.JoinPlayer { return pt.JoinPlayer{PlayerID: id, RedeemChips: 9, Seat: seat} }
		if !long {
			if err := td.te.PlayerReserve(jp("x", 2)); err != nil {
				return "", "harness-base", err.Error()
			}
			env.Settle()
		}
		var rets []string
		done := false
		env.WindowBegin()
		th := env.Go("arrivals", false, func() {
			if long {
				rets = append(rets, "reserve(x)="+errStr(td.te.PlayerReserve(jp("x", 2))))
			}
			rets = append(rets, "join(x)="+errStr(td.te.PlayerJoin("x")))
			rets = append(rets, "reserve(y)="+errStr(td.te.PlayerReserve(jp("y", 3))))
			if long {
				rets = append(rets, "join(y)="+errStr(td.te.PlayerJoin("y")))
			}
			done = true
		})
		env.Join(th)
		env.WindowEnd()
		env.Settle()
		if !done {
			return fmt.Sprintf("%v never returned", rets), "wedged@arrival-call-never-returns", fmt.Sprintf("after hand 1 (standby) one caller issued the arrivals back to back; completed: %v; the next call never returns (blocked: %v)", rets, env.Blocked())
		}
		for _, r := range rets {
			if r[len(r)-5:] != "<nil>" {
				return fmt.Sprintf("%v", rets), "", "" // a refused arrival is not this clause's business
			}
		}
		ok := td.runUntil(pol, 300, func() bool { return td.table().State.GameCount >= 2 })
		out := fmt.Sprintf("%v; hand 2 opened=%v; status %s", rets, ok, td.status())
		if !ok {
			return out, "wedged-in-standby@arrivals", fmt.Sprintf("after hand 1 two players arrived (%v); four seated players have chips, yet hand 2 never opens: status %s, pending timers %d, blocked %v", rets, td.status(), env.PendingTimers(), env.Blocked())
		}
		return out, "", ""
	})
}

func c08SchedSuites(tier string) []*Suite {
	ss := []*Suite{{Name: "c08/inject-arrivals/join-reserve", Bound: 2, Weight: 50, Run: func(prefix []int) *vrt.Exec { return c08Inject(prefix, false) }}}
	if tier == "thorough" {
		ss[0].Bound = 3
		ss = append(ss, &Suite{Name: "c08/inject-arrivals/reserve-join-reserve-join", Bound: 2, Weight: 50, Run: func(prefix []int) *vrt.Exec { return c08Inject(prefix, true) }})
	}
	return ss
}
