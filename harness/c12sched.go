package main

// C12 (schedule part): UpdateBlind racing the opening of a hand. An injector thread updates the blind level
// while the gate's completion runs tableGameOpen / openGame / startGame in fine mode; every schedule within
// the deviation bound is executed. Either level may be the one "in force when the hand opened", but the
// hand engine's blinds, the published hand level and the posted blinds must all be that one level.

import (
	"fmt"

	pt "github.com/weedbox/pokertable"
	"verif.local/vrt"
)

func c12Inject(prefix []int, ante bool) *vrt.Exec {
	return runTable(prefix, vrt.Config{FineAll: true}, func(env *vrt.Env) (string, string, string) {
		cfg := defaultCfg(3)
		if ante {
			cfg.Blind = blindAnte()
		}
		td, err := newTD(env, cfg)
		if err != nil {
			return "", "harness-create", err.Error()
		}
		td.seatIn([]string{"a", "b"}, []int{0, 1}, []int64{20, 20})
		td.start()
		env.Settle()
		oldB := *td.table().State.BlindState
		newB := pt.TableBlindState{Level: 2, Ante: oldB.Ante + 1, Dealer: 0, SB: 2, BB: 4}
		env.WindowBegin()
		// fire the gate's timeout: its completion goroutine (tableGameOpen) is now runnable; the injector starts
		// at the same moment and can be scheduled between any two of its statements
		env.AdvanceTimer()
		th := env.Go("injector:UpdateBlind", true, func() {
			td.te.UpdateBlind(newB.Level, newB.Ante, newB.Dealer, newB.SB, newB.BB)
		})
		for i := 0; i < 6; i++ {
			env.Settle()
			if td.pending().Kind != "" || env.PendingTimers() == 0 {
				break
			}
			env.AdvanceTimer()
		}
		env.Join(th)
		env.WindowEnd()
		pol := &HandPolicy{Line: lineCheckDown, Finish: "none"}
		td.runUntil(pol, 300, func() bool {
			return td.table().State.GameCount == 1 && td.status() == pt.TableStateStatus_TableGameStandby
		})
		// judge every snapshot of hand 1
		var level *pt.TableBlindState
		for _, s := range td.snaps {
			st := s.T.State
			if st.GameCount != 1 || st.GameState == nil {
				continue
			}
			m := st.GameState.Meta
			eng := pt.TableBlindState{Ante: m.Ante, Dealer: m.Blind.Dealer, SB: m.Blind.SB, BB: m.Blind.BB}
			match := func(b pt.TableBlindState) bool {
				return b.Ante == eng.Ante && b.Dealer == eng.Dealer && b.SB == eng.SB && b.BB == eng.BB
			}
			if !match(oldB) && !match(newB) {
				return "", "hand-blinds-mixed", fmt.Sprintf("the hand is played at ante %d blinds %+v: neither the level before the update %+v nor the one after %+v", m.Ante, m.Blind, oldB, newB)
			}
			if st.GameBlindState != nil {
				g := *st.GameBlindState
				if g.Ante != eng.Ante || g.SB != eng.SB || g.BB != eng.BB || g.Dealer != eng.Dealer {
					return "", "published-level-differs-from-charged", fmt.Sprintf("the hand charges ante %d blinds %+v but publishes hand level %+v (update racing the open)", m.Ante, m.Blind, g)
				}
				if (match(oldB) && g.Level != oldB.Level) || (match(newB) && !match(oldB) && g.Level != newB.Level) {
					return "", "published-level-number-differs", fmt.Sprintf("the hand charges %+v but publishes level number %d", eng, g.Level)
				}
				level = &g
			}
		}
		// the update is never lost: afterwards the table level is the new one
		if cur := *td.table().State.BlindState; cur != newB {
			return "", "update-lost@racing-open", fmt.Sprintf("UpdateBlind(%+v) returned, but afterwards the table's blind level is %+v (overwritten by the table clone made while the hand opened)", newB, cur)
		}
		out := "hand level: none"
		if level != nil {
			out = fmt.Sprintf("hand level: %+v", *level)
		}
		return out, "", ""
	})
}

func c12SchedSuites(tier string) []*Suite {
	bound := 1
	if tier == "thorough" {
		bound = 2
	}
	var ss []*Suite
	for _, ante := range []bool{false, true} {
		ante := ante
		ss = append(ss, &Suite{Name: fmt.Sprintf("c12/inject-update-blind/ante=%v", ante), Bound: bound, Weight: 50, Run: func(prefix []int) *vrt.Exec { return c12Inject(prefix, ante) }})
	}
	return ss
}
