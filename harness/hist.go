package main

// Multi-hand histories: between consecutive hands (and at the first wager request of a hand) the
// scenario picks, by explorer choice, one membership / blind operation from a small alphabet and the
// line + deck of the next hand.  Every history is an execution of the real engine from a fresh table.

import (
	"fmt"
	"sort"
	"strings"

	"github.com/weedbox/pokerface"
	pt "github.com/weedbox/pokertable"
	"verif.local/vrt"
)

type seatSpec struct {
	id     string
	seat   int
	chips  int64
	joined bool
}

type histCfg struct {
	name                 string
	tcfg                 TableCfg
	init                 []seatSpec
	hands                int
	lines                []string // names of lines available to hands
	decks                []string
	between              []string // membership ops allowed between hands: arrive sitout rebuy leave-busted leave-live addon none
	late                 []string // ops allowed between hands after the next hand has been set up (during the open-game wait)
	retry                []string // ops allowed while tableGameOpen sleeps in its retry loop (first attempt failed)
	opened               []string // lock-free ops applied from inside the OnTableUpdated callback of the table_game_opened update (between openGame and startGame)
	mid                  []string // ops allowed at the first wager request: arrive addon-part rebuy-part leave-sitout leave-part none
	finish               []string // settlement-finished policies available: all none first
	newStack             int64
	preset               bool     // the initial players are handed to CreateTable in the table setting instead of reserving them one by one
	between2             bool     // a second operation may follow the first in the same gap between hands
	advance              int64    // seconds the clock moves before every wager action
	race                 *raceCfg // one operation issued concurrently with the response that ends hand 1 (racing settlement / continue)
	panicsAreDiagnostics bool // a panic in a system goroutine is recorded as a diagnostic, not attributed to this property
}

type hist struct {
	cfg             *histCfg
	td              *TD
	nextID          int
	in, out         int64
	topups          map[int]map[string]int64 // hand -> id -> chips credited while the hand was running
	midDone         map[int]bool
	midOp           map[int]string
	events          []string
	taint           string // set when the history did something after which a listed finding applies to every clause
	externalPause   bool
	externalStop    bool
	stopReason      string
	curBlind        *pt.TableBlindState
	onExternal      func(kind string)
	inLate          bool
	lateLeave       map[int]bool                // hand after which a player left during the open-game wait
	openedUpdate    map[int]*pt.TableBlindState // hand -> blind level set from inside its opened callback
	openedDone      map[int]bool
	raceViol        *Viol // judged by race() itself right after the window (see monRaceViol)
	stopRetSeq      int   // number of snapshots published when a racing close / release returned
	breakDuringWait bool // a break was applied after the next hand had been set up (open-game wait)
}

// raceCfg: at the nth wager request of hand 1 (the one whose answer ends the hand) the answer and one
// external operation run as two threads in an exploration window (fine mode), so the operation can land
// between any two statements of the hand's settlement and the continue step, which the engine runs in the
// hand's updater goroutine without the engine lock.
type raceCfg struct {
	nth int
	op  string // rebuy:<id> | addon:<id> | arrive | sitout | leave:<id>
}

func (h *hist) race(rc *raceCfg, pol *HandPolicy) string {
	td, env := h.td, h.td.env
	p := td.pending()
	if p.Kind != "wager" {
		return "race:no-wager-request"
	}
	cp := p.GS.GetPlayer(p.GS.Status.CurrentPlayer)
	a, amt := pol.Line(td, p.GS, cp)
	who := p.Players[0]
	kind, arg, _ := strings.Cut(rc.op, ":")
	seat, newID := -1, ""
	if kind == "arrive" || kind == "sitout" {
		free := h.freeSeats()
		if len(free) == 0 {
			return "race:full"
		}
		seat, newID = free[0], h.newID()
	}
	var bank int64
	if kind == "leave" {
		if pl := td.player(arg); pl != nil {
			bank = pl.Bankroll
		}
	}
	beforeActs := len(td.actions)
	var extOld, extRet int64
	var extErr error
	if kind == "extend" {
		// the asked player has been thinking for three seconds: the next request's deadline differs from this one's
		env.AdvanceTo(env.Now() + 3e9)
		extOld = td.table().State.CurrentActionEndAt
	}
	env.WindowBegin()
	tA := env.Go("answer:"+a, true, func() { td.act(who, a, amt) })
	tB := env.Go("op:"+rc.op, true, func() {
		switch kind {
		case "rebuy":
			if td.reserve(arg, -1, h.cfg.newStack) == nil {
				h.in += h.cfg.newStack
			}
		case "addon":
			if td.addon(arg, 3) == nil {
				h.in += 3
			}
		case "arrive", "sitout":
			if td.reserve(newID, seat, h.cfg.newStack) == nil {
				h.in += h.cfg.newStack
				if kind == "arrive" {
					td.join(newID)
				}
			}
		case "extend":
			extRet, extErr = td.te.PlayerExtendActionDeadline(who, 15)
			td.logf("extend(%s,15)->%d,%v", who, extRet, extErr)
		case "leave":
			if td.leave(arg) == nil {
				h.out += bank
				// settleGame / continueGame index the player list while the departure shrinks it: whatever goes
				// wrong afterwards in such an execution is one finding (see known_findings.json, C08)
				h.taint = "after-bystander-left-while-hand-settles"
			}
		case "noop":
			// no second call: the window only lets the hand's own updater goroutine interleave with the answer
		default:
			if strings.HasPrefix(kind, "blind-") || kind == "close" || kind == "release" {
				// table-level call issued while the hand ends: h.apply performs it and tells the monitors. A break
				// that arrives while the hand is ending only has to prevent the next open (whether the pause
				// decision of the continue step sees it depends on the schedule).
				h.apply(rc.op)
				h.stopRetSeq = len(td.snaps)
				if kind == "blind-break" {
					h.breakDuringWait = true
				}
				return
			}
			panic("unknown race op " + rc.op)
		}
	})
	env.Join(tA, tB)
	env.WindowEnd()
	env.Settle()
	if kind == "noop" && arg == "event" {
		// C10: the action event published for the accepted action names the round the action was made in, also
		// when the action closes the betting round and the hand's updater goroutine moves on at once
		found := false
		for _, e := range td.actions[beforeActs:] {
			if e.A.PlayerID == who && e.A.Action == a {
				found = true
				diagNotes[fmt.Sprintf("race-event: %s in %s, event names round %q", a, p.GS.Status.Round, e.A.Round)]++
				if e.A.Round != p.GS.Status.Round || e.A.GameID != p.GS.GameID {
					h.raceViol = &Viol{Key: "action-event-fields@round-closing-" + a, Detail: fmt.Sprintf("%s's %s was accepted in round %q of hand %s (it closed the betting round, the hand went on); the action event names round %q hand %s", who, a, p.GS.Status.Round, p.GS.GameID, e.A.Round, e.A.GameID)}
				}
			}
		}
		if !found && h.raceViol == nil {
			h.raceViol = &Viol{Key: "action-event-missing@round-closing-" + a, Detail: fmt.Sprintf("no action event for %s's accepted %s", who, a)}
		}
	}
	if kind == "noop" && arg == "" && a == "fold" {
		// C14: the fold round recorded for the folder is the round in which the fold was accepted, also when that
		// fold closes the betting round and the hand's updater goroutine moves on at once
		if pl := td.player(who); pl != nil && td.table().State.GameState != nil {
			g := pl.GameStatistics
			diagNotes[fmt.Sprintf("race-fold: folded in %s, recorded fold=%v round %q", p.GS.Status.Round, g.IsFold, g.FoldRound)]++
			if !g.IsFold || g.FoldRound != p.GS.Status.Round {
				h.raceViol = &Viol{Key: "fold-flag@round-closing-fold", Detail: fmt.Sprintf("%s folded in round %q (the fold closed the betting round, the hand went on); statistics: fold flag %v, fold round %q", who, p.GS.Status.Round, g.IsFold, g.FoldRound)}
			}
		}
	}
	if kind == "extend" {
		// C15: the answer moved the turn to the next player (same betting round). Whatever the order of the two
		// calls, that player's published deadline is request time + action time, plus the 15 s if - and only if -
		// the extension was applied after the turn had moved (its return value tells which).
		t := td.table()
		if np := td.pending(); np.Kind == "wager" && len(np.Players) > 0 && np.Players[0] != who && t.State.GameState != nil && t.State.GameState.Status.CurrentEvent == "RoundStarted" {
			fresh := env.Now()/1e9 + int64(t.Meta.ActionTime)
			final := t.State.CurrentActionEndAt
			want := fresh
			if extRet == fresh+15 {
				want = fresh + 15
			}
			diagNotes[fmt.Sprintf("race-extend: extension returned old%+d, next deadline published fresh%+d", extRet-extOld, final-fresh)]++
			if extErr == nil && final != want {
				h.raceViol = &Viol{Key: "deadline-wrong@extension-racing-turn-change", Detail: fmt.Sprintf("%s was asked at t=%d (deadline %d), thought for 3 s, then answered (%s) while a 15 s extension was requested at the same time; the extension returned %d; %s is now asked at t=%d with action time %d: published deadline %d, expected %d", who, env.Now()/1e9-3, extOld, a, extRet, np.Players[0], env.Now()/1e9, t.Meta.ActionTime, final, want)}
			}
		}
	}
	return fmt.Sprintf("race[%s(%s) || %s]", a, who, rc.op)
}

var lineByName = map[string]Line{"foldout": lineFoldOut, "checkdown": lineCheckDown, "allin": lineAllIn, "explore": lineExplore, "raise-call-fold": lineRaiseCallFold}

func (h *hist) freeSeats() []int {
	t := h.td.table()
	var out []int
	for s, pi := range t.State.SeatMap {
		if pi == -1 {
			out = append(out, s)
		}
	}
	return out
}

func (h *hist) newID() string {
	h.nextID++
	return fmt.Sprintf("n%d", h.nextID)
}

func (h *hist) inHand() bool {
	st := h.td.table().State.Status
	return st == pt.TableStateStatus_TableGamePlaying || st == pt.TableStateStatus_TableGameOpened || st == pt.TableStateStatus_TableGameSettled
}

func (h *hist) credit(id string, chips int64) {
	h.in += chips
	if h.inHand() {
		g := h.td.table().State.GameCount
		if h.topups[g] == nil {
			h.topups[g] = map[string]int64{}
		}
		h.topups[g][id] += chips
	}
}

// apply performs one membership operation; returns a description.
func (h *hist) apply(op string) string {
	td := h.td
	env := td.env
	t := td.table()
	switch op {
	case "none":
		return "none"
	case "arrive", "sitout":
		free := h.freeSeats()
		if len(free) == 0 {
			return op + ":full"
		}
		seat := free[env.Choose(len(free), op+"-seat")]
		id := h.newID()
		if err := td.reserve(id, seat, h.cfg.newStack); err == nil {
			h.credit(id, h.cfg.newStack)
			if op == "arrive" {
				td.join(id)
			}
		}
		return fmt.Sprintf("%s(%s@%d)", op, id, seat)
	case "join-sitout":
		for _, p := range t.State.PlayerStates {
			if !p.IsIn {
				td.join(p.PlayerID)
				return fmt.Sprintf("join-sitout(%s)", p.PlayerID)
			}
		}
		return op + ":nobody"
	case "rebuy", "rebuy-part", "topup":
		var c []string
		for _, p := range t.State.PlayerStates {
			if op == "topup" || p.Bankroll == 0 || op == "rebuy-part" && p.IsParticipated {
				c = append(c, p.PlayerID)
			}
		}
		if len(c) == 0 {
			return op + ":nobody"
		}
		id := c[env.Choose(len(c), op+"-who")]
		if err := td.reserve(id, -1, h.cfg.newStack); err == nil {
			h.credit(id, h.cfg.newStack)
		}
		return fmt.Sprintf("%s(%s)", op, id)
	case "addon", "addon-part", "addon-busted":
		var c []string
		for _, p := range t.State.PlayerStates {
			if op == "addon" || op == "addon-part" && p.IsParticipated || op == "addon-busted" && p.Bankroll == 0 {
				c = append(c, p.PlayerID)
			}
		}
		if len(c) == 0 {
			return op + ":nobody"
		}
		id := c[env.Choose(len(c), op+"-who")]
		if err := td.addon(id, 3); err == nil {
			h.credit(id, 3)
		}
		return fmt.Sprintf("%s(%s)", op, id)
	case "leave-busted", "leave-live", "leave-sitout", "leave-part":
		var c []string
		for _, p := range t.State.PlayerStates {
			switch op {
			case "leave-busted":
				if p.Bankroll == 0 {
					c = append(c, p.PlayerID)
				}
			case "leave-live":
				if p.Bankroll > 0 {
					c = append(c, p.PlayerID)
				}
			case "leave-sitout":
				if !p.IsParticipated {
					c = append(c, p.PlayerID)
				}
			case "leave-part":
				if p.IsParticipated {
					c = append(c, p.PlayerID)
				}
			}
		}
		if len(c) == 0 {
			return op + ":nobody"
		}
		id := c[env.Choose(len(c), op+"-who")]
		bank := td.player(id).Bankroll
		wasPart := td.player(id).IsParticipated && h.inHand()
		if err := td.leave(id); err == nil {
			if h.inLate {
				if h.lateLeave == nil {
					h.lateLeave = map[int]bool{}
				}
				h.lateLeave[t.State.GameCount] = true
			}
			h.out += bank
			if wasPart {
				h.taint = "after-participant-left-mid-hand"
			}
		}
		return fmt.Sprintf("%s(%s)", op, id)
	}
	if strings.HasPrefix(op, "blind-") {
		b := *t.State.BlindState
		switch op {
		case "blind-raise":
			b = pt.TableBlindState{Level: b.Level + 1, Ante: b.Ante, Dealer: b.Dealer * 2, SB: b.SB * 2, BB: b.BB * 2}
			if b.Level <= 0 {
				b.Level = 2
			}
		case "blind-lower":
			b = pt.TableBlindState{Level: 1, Ante: 0, Dealer: 0, SB: 1, BB: 2}
		case "blind-ante":
			b.Ante = 1 - b.Ante
			if b.Level <= 0 {
				b.Level = 1
			}
		case "blind-break":
			b.Level = -1
			if h.inLate {
				h.breakDuringWait = true
			}
		case "blind-resume":
			b = pt.TableBlindState{Level: 3, Ante: 0, Dealer: 0, SB: 1, BB: 2}
		}
		td.te.UpdateBlind(b.Level, b.Ante, b.Dealer, b.SB, b.BB)
		td.logf("blind(%+v)", b)
		h.curBlind = &b
		return fmt.Sprintf("%s(%+v)", op, b)
	}
	switch op {
	case "close":
		err := td.te.CloseTable()
		td.logf("close->%v", err)
		h.externalStop, h.stopReason = true, "the table was closed"
	case "release":
		err := td.te.ReleaseTable()
		td.logf("release->%v", err)
		h.externalStop, h.stopReason = true, "the table was released"
	case "pause":
		err := td.te.PauseTable()
		td.logf("pause->%v", err)
		h.externalPause = true
	case "setup-again":
		parts := map[string]int{}
		i := 0
		for _, p := range t.State.PlayerStates {
			if p.Bankroll > 0 {
				parts[p.PlayerID] = i
				i++
			}
		}
		td.te.SetUpTableGame(t.State.GameCount+1, parts)
		td.logf("setup(%d,%v)", t.State.GameCount+1, parts)
	case "start-again":
		err := td.te.StartTableGame()
		td.logf("start-again->%v", err)
	default:
		panic("unknown op " + op)
	}
	if h.onExternal != nil {
		h.onExternal(op)
	}
	return op
}

// runHist runs one history; mk builds the monitors (they may consult h).
func runHist(prefix []int, hc *histCfg, vcfg vrt.Config, mk func(h *hist) []Monitor) *vrt.Exec {
	var hh *hist
	x := runHist0(prefix, hc, vcfg, mk, &hh)
	if hc.panicsAreDiagnostics && strings.HasPrefix(x.Violation, "panic@") {
		diagNotes[x.Violation+": "+firstLine(x.Detail)]++
		x.Violation, x.Detail = "", ""
	}
	if x.Violation != "" && hh != nil && !strings.Contains(x.Detail, "history: ") {
		x.Detail += "\nconfig: " + hc.name + "\nhistory: " + fmt.Sprint(hh.events) + "\nops: " + hh.td.opsString()
	}
	if x.Violation != "" && hh != nil && hh.taint != "" {
		// everything that goes wrong after this point is one finding (see known_findings.json)
		x.Detail = "[" + x.Violation + "] " + x.Detail + "\nhistory: " + fmt.Sprint(hh.events) + "\nops: " + hh.td.opsString()
		x.Violation = hh.taint
		if hitKnown(x.Violation, x.Detail) {
			x.Violation, x.Detail = "", ""
		}
	}
	return x
}

func runHist0(prefix []int, hc *histCfg, vcfg vrt.Config, mk func(h *hist) []Monitor, hout **hist) *vrt.Exec {
	return runTable(prefix, vcfg, func(env *vrt.Env) (string, string, string) {
		tc := hc.tcfg
		if hc.preset {
			for _, s := range hc.init {
				tc.Join = append(tc.Join, pt.JoinPlayer{PlayerID: s.id, RedeemChips: s.chips, Seat: s.seat})
			}
		}
		td, err := newTD(env, tc)
		if err != nil {
			return "", "harness-create-table", err.Error()
		}
		h := &hist{cfg: hc, td: td, topups: map[int]map[string]int64{}, midDone: map[int]bool{}, midOp: map[int]string{}}
		*hout = h
		for _, s := range hc.init {
			if hc.preset {
				if td.player(s.id) == nil {
					return "", "harness-seat", "preset player " + s.id + " is not on the table after CreateTable"
				}
			} else if err := td.reserve(s.id, s.seat, s.chips); err != nil {
				return "", "harness-seat", err.Error()
			}
			h.in += s.chips
			if s.joined {
				td.join(s.id)
			}
		}
		if len(hc.opened) > 0 {
			h.openedUpdate, h.openedDone = map[int]*pt.TableBlindState{}, map[int]bool{}
			td.onSnap = func(sn *Snap) {
				g := sn.T.State.GameCount
				if sn.T.State.Status != pt.TableStateStatus_TableGameOpened || h.openedDone[g] {
					return
				}
				h.openedDone[g] = true
				op := hc.opened[env.ChooseDev(len(hc.opened), "at-opened-callback")]
				if op == "none" {
					return
				}
				d := h.apply(op)
				h.events = append(h.events, "in-opened-callback:"+d)
				if h.curBlind != nil {
					b := *h.curBlind
					h.openedUpdate[g] = &b
				}
			}
		}
		cfg := &handCfg{name: hc.name, tcfg: hc.tcfg, hands: hc.hands, advance: hc.advance}
		pickHand := func(n int) {
			ln := hc.lines[env.ChooseDev(len(hc.lines), "line")]
			dk := "asc"
			if ln != "foldout" && len(hc.decks) > 0 {
				dk = hc.decks[env.Choose(len(hc.decks), "deck")]
			}
			fin := "all"
			if len(hc.finish) > 0 {
				fin = hc.finish[env.ChooseDev(len(hc.finish), "finish")]
			}
			td.be.deckKind = dk
			cfg.pol.Line = lineByName[ln]
			cfg.pol.Finish = fin
			mid := "none"
			if len(hc.mid) > 0 {
				mid = hc.mid[env.ChooseDev(len(hc.mid), "mid")]
			}
			h.midOp[n] = mid
			h.events = append(h.events, fmt.Sprintf("hand%d(%s,%s,fin=%s,mid=%s)", n, ln, dk, fin, mid))
			td.logf("[hand %d: %s %s fin=%s mid=%s]", n, ln, dk, fin, mid)
		}
		cfg.between = func(td *TD, hand int) {
			if hand >= hc.hands {
				return
			}
			if len(hc.between) > 0 {
				op := hc.between[env.ChooseDev(len(hc.between), "between")]
				d := h.apply(op)
				h.events = append(h.events, d)
				if hc.between2 && op != "none" {
					td.env.Settle()
					if op2 := hc.between[env.ChooseDev(len(hc.between), "between-2nd")]; op2 != "none" {
						h.events = append(h.events, "then:"+h.apply(op2))
					}
				}
			}
			pickHand(hand + 1)
		}
		cfg.late = func(td *TD, hand int) {
			if hand >= hc.hands || len(hc.late) == 0 {
				return
			}
			op := hc.late[env.ChooseDev(len(hc.late), "late")]
			if op != "none" {
				h.inLate = true
				d := h.apply(op)
				h.inLate = false
				h.events = append(h.events, "late:"+d)
				td.env.Settle()
			}
		}
		if len(hc.retry) > 0 {
			cfg.retry = func(td *TD, hand int) {
				op := hc.retry[env.ChooseDev(len(hc.retry), "retry")]
				if op != "none" {
					d := h.apply(op)
					h.events = append(h.events, "during-open-retry:"+d)
					td.env.Settle()
				}
			}
		}
		cfg.atWager = func(td *TD, hand int, nth int) {
			if hc.race != nil && hand == 1 && nth == hc.race.nth {
				h.events = append(h.events, h.race(hc.race, &cfg.pol))
				return
			}
			if nth != 0 || h.midDone[hand] {
				return
			}
			h.midDone[hand] = true
			if op := h.midOp[hand]; op != "" && op != "none" {
				d := h.apply(op)
				h.events = append(h.events, "mid:"+d)
				td.env.Settle()
			}
		}
		r := &runner{td: td, hc: cfg, wagerN: map[int]int{}, betweenDone: map[int]bool{}, lateDone: map[int]bool{}, retryDone: map[int]bool{}}
		r.taint = func() string { return h.taint }
		r.mons = mk(h)
		pickHand(1)
		td.start()
		res := r.run()
		outcome := res + " " + histOutcome(h)
		if r.viol != nil {
			return outcome, r.viol.Key, r.viol.Detail + "\nconfig: " + hc.name + "\nhistory: " + fmt.Sprint(h.events) + "\nops: " + td.opsString()
		}
		return outcome, "", ""
	})
}

func histOutcome(h *hist) string {
	t := h.td.table()
	var bs []string
	for _, p := range t.State.PlayerStates {
		bs = append(bs, fmt.Sprintf("%s@%d=%d%s", p.PlayerID, p.Seat, p.Bankroll, map[bool]string{true: "", false: "(out)"}[p.IsIn]))
	}
	sort.Strings(bs)
	return fmt.Sprintf("%s gc=%d D%d/SB%d/BB%d %v %v", t.State.Status, t.State.GameCount, t.State.CurrentDealerSeat, t.State.CurrentSBSeat, t.State.CurrentBBSeat, bs, h.events)
}

// ---------------------------------------------------------------------------------------------
// C01 ledger monitor

type monLedger struct {
	baseMon
	h *hist
}

func (m *monLedger) check(td *TD, where string) *Viol {
	t := td.table()
	if t.State.GameState != nil {
		return nil // a hand is in progress
	}
	var sum int64
	for _, p := range t.State.PlayerStates {
		sum += p.Bankroll
	}
	if sum != m.h.in-m.h.out {
		return &Viol{Key: "ledger@" + string(t.State.Status), Detail: fmt.Sprintf("%s: no hand in progress (status %s), bankrolls sum to %d, brought in %d, taken away %d (expected %d)", where, t.State.Status, sum, m.h.in, m.h.out, m.h.in-m.h.out)}
	}
	return nil
}

func (m *monLedger) Quiescent(td *TD, p Pending) *Viol { return m.check(td, "quiescent point") }
func (m *monLedger) End(td *TD) *Viol                  { return m.check(td, "end of history") }

var _ = pokerface.GameEvent_Started
