package main

// SEAT harness: explicit-state breadth-first search over the real seat manager (one real
// call on a restored clone per transition), to closure where the space allows.
// Serves C04 (dead-button rule) and the seat-manager half of C05 (waiting flags).

import (
	"fmt"
	"sort"
	"strings"
	"time"

	sm "github.com/weedbox/pokertable/seat_manager"
	"verif.local/vrt"
)

type seatMirror struct {
	MaxSeat      int                    `json:"max_seat"`
	SeatData     map[int]*sm.SeatPlayer `json:"seat_data"`
	DealerSeatID int                    `json:"dealer_seat_id"`
	SBSeatID     int                    `json:"sb_seat_id"`
	BBSeatID     int                    `json:"bb_seat_id"`
	Rule         string                 `json:"rule"`
	IsInit       bool                   `json:"is_init"`
}

// compact canonical state: per seat one byte (0 empty; 1|in<<1|between<<2|chips<<3), then D,SB,BB (+1), init
type seatState string

func (m *seatMirror) compact(miss []int8) seatState {
	b := make([]byte, 0, m.MaxSeat*2+4)
	for s := 0; s < m.MaxSeat; s++ {
		p := m.SeatData[s]
		var c byte
		if p != nil {
			c = 1
			if p.IsIn {
				c |= 2
			}
			if p.IsBetweenDealerBB {
				c |= 4
			}
			if p.HasChips {
				c |= 8
			}
		}
		b = append(b, c)
	}
	b = append(b, byte(m.DealerSeatID+1), byte(m.SBSeatID+1), byte(m.BBSeatID+1))
	if m.IsInit {
		b = append(b, 1)
	} else {
		b = append(b, 0)
	}
	for _, x := range miss {
		b = append(b, byte(x))
	}
	return seatState(b)
}

func seatExpand(st seatState, n int, rule string) (*seatMirror, []int8) {
	m := &seatMirror{MaxSeat: n, SeatData: map[int]*sm.SeatPlayer{}, Rule: rule}
	for s := 0; s < n; s++ {
		c := st[s]
		if c == 0 {
			m.SeatData[s] = nil
			continue
		}
		m.SeatData[s] = &sm.SeatPlayer{ID: fmt.Sprintf("p%d", s), IsIn: c&2 != 0, IsBetweenDealerBB: c&4 != 0, HasChips: c&8 != 0}
	}
	m.DealerSeatID = int(st[n]) - 1
	m.SBSeatID = int(st[n+1]) - 1
	m.BBSeatID = int(st[n+2]) - 1
	m.IsInit = st[n+3] == 1
	var miss []int8
	for i := n + 4; i < len(st); i++ {
		miss = append(miss, int8(st[i]))
	}
	return m, miss
}

func (m *seatMirror) String() string {
	var sb strings.Builder
	for s := 0; s < m.MaxSeat; s++ {
		p := m.SeatData[s]
		if p == nil {
			sb.WriteString("[-]")
			continue
		}
		f := ""
		if p.IsIn {
			f += "i"
		}
		if p.HasChips {
			f += "c"
		}
		if p.IsBetweenDealerBB {
			f += "w"
		}
		sb.WriteString("[" + f + "]")
	}
	fmt.Fprintf(&sb, " D%d/SB%d/BB%d init=%v", m.DealerSeatID, m.SBSeatID, m.BBSeatID, m.IsInit)
	return sb.String()
}

func (m *seatMirror) live(s int) bool {
	p := m.SeatData[s]
	return p != nil && p.IsIn && p.HasChips
}
func (m *seatMirror) active(s int) bool {
	p := m.SeatData[s]
	return p != nil && p.Active()
}
func (m *seatMirror) count(f func(int) bool) int {
	n := 0
	for s := 0; s < m.MaxSeat; s++ {
		if f(s) {
			n++
		}
	}
	return n
}
func (m *seatMirror) occupied() int {
	return m.count(func(s int) bool { return m.SeatData[s] != nil })
}

// nextWhere: first seat strictly after `from` clockwise (wrapping, excluding from) with f.
func (m *seatMirror) nextWhere(from int, f func(int) bool) int {
	for i := 1; i < m.MaxSeat; i++ {
		s := (from + i) % m.MaxSeat
		if f(s) {
			return s
		}
	}
	return -1
}
func (m *seatMirror) prevWhere(from int, f func(int) bool) int {
	for i := 1; i < m.MaxSeat; i++ {
		s := ((from-i)%m.MaxSeat + m.MaxSeat) % m.MaxSeat
		if f(s) {
			return s
		}
	}
	return -1
}

// strictlyBetween: s lies strictly between a and b going clockwise from a.
func strictlyBetween(n, a, b, s int) bool {
	if a < 0 || b < 0 || a == b {
		// dealer seat == BB seat is the degenerate button state recorded as C04's known finding; no
		// seat is taken to lie strictly between a seat and itself
		return false
	}
	for i := (a + 1) % n; i != b; i = (i + 1) % n {
		if i == s {
			return true
		}
		if i == a { // a == b: full circle
			break
		}
	}
	return false
}

type seatOp struct {
	kind string
	seat int
	draw int
}

func (o seatOp) String() string {
	switch o.kind {
	case "init-random":
		return fmt.Sprintf("init(random,draw=%d)", o.draw)
	case "rassign", "rsit":
		return fmt.Sprintf("%s(draw=%d)->%d", o.kind, o.draw, o.seat)
	case "init-first":
		return "init(first)"
	case "rotate":
		return "rotate"
	}
	return fmt.Sprintf("%s%d", o.kind, o.seat)
}

type seatBFS struct {
	n           int
	rule        string
	maxOcc      int
	trackMiss   bool
	lite        bool // reduced alphabet: sit = assign+join in one step, bust only seated-in players
	states      map[seatState]int32
	list        []seatState
	parent      []int32
	parentOp    []seatOp
	depth       []int16
	transitions int
	violations  map[string]*Violation
	name        string
	budget      time.Duration
}

func restoreSeat(m *seatMirror) sm.SeatManager {
	st := &sm.VerifState{MaxSeat: m.MaxSeat, Seats: make([]*sm.SeatPlayer, m.MaxSeat), DealerSeatID: m.DealerSeatID, SBSeatID: m.SBSeatID, BBSeatID: m.BBSeatID, Rule: m.Rule, IsInit: m.IsInit}
	for i := 0; i < m.MaxSeat; i++ {
		st.Seats[i] = m.SeatData[i]
	}
	return sm.VerifNew(st)
}

func mirrorOf(s sm.SeatManager) *seatMirror {
	st := sm.VerifGet(s)
	m := &seatMirror{MaxSeat: st.MaxSeat, SeatData: make(map[int]*sm.SeatPlayer, st.MaxSeat), DealerSeatID: st.DealerSeatID, SBSeatID: st.SBSeatID, BBSeatID: st.BBSeatID, Rule: st.Rule, IsInit: st.IsInit}
	for i, p := range st.Seats {
		m.SeatData[i] = p
	}
	return m
}

// apply runs one operation on a fresh clone of state m inside a controlled world (so that
// random draws are decided by `draw`) and returns the state after and the returned error.
func seatApply(m *seatMirror, op seatOp) (after *seatMirror, errStr string, ndraws int) {
	body := func() {
		s := restoreSeat(m)
		id := fmt.Sprintf("p%d", op.seat)
		var err error
		switch op.kind {
		case "assign":
			err = s.AssignSeats(map[string]int{id: op.seat})
		case "sit":
			if err = s.AssignSeats(map[string]int{id: op.seat}); err == nil {
				err = s.JoinPlayers([]string{id})
			}
		case "rassign", "rsit": // random seat: the seat manager draws it; the occupant is renamed p<seat> afterwards
			if err = s.RandomAssignSeats([]string{"tmp"}); err == nil && op.kind == "rsit" {
				err = s.JoinPlayers([]string{"tmp"})
			}
		case "join":
			err = s.JoinPlayers([]string{id})
		case "bust":
			err = s.UpdatePlayerHasChips(id, false)
		case "rebuy":
			err = s.UpdatePlayerHasChips(id, true)
		case "leave":
			err = s.RemoveSeats([]string{id})
		case "init-random":
			err = s.InitPositions(true)
		case "init-first":
			err = s.InitPositions(false)
		case "rotate":
			err = s.RotatePositions()
		}
		if err != nil {
			errStr = err.Error()
		}
		after = mirrorOf(s)
	}
	if op.kind != "init-random" && op.kind != "rassign" && op.kind != "rsit" {
		// no randomness involved: call directly (the shims degrade to plain operations outside a world)
		func() {
			defer func() {
				if r := recover(); r != nil {
					after, errStr = nil, fmt.Sprintf("PANIC: %v", r)
				}
			}()
			body()
		}()
		return after, errStr, 0
	}
	res := vrt.Run(vrt.Config{Prefix: []int{op.draw}, DataExplore: true, ShuffleDepth: 1}, func(env *vrt.Env) { body() })
	if res.DriverPanic != "" {
		return nil, "PANIC: " + firstLine(res.DriverPanic), 0
	}
	for _, c := range res.Trace {
		if c.Kind == 'd' {
			ndraws = c.N
		}
	}
	return after, errStr, ndraws
}

func (b *seatBFS) path(idx int32) string {
	var ops []string
	for idx > 0 {
		ops = append(ops, b.parentOp[idx].String())
		idx = b.parent[idx]
	}
	for i, j := 0, len(ops)-1; i < j; i, j = i+1, j-1 {
		ops[i], ops[j] = ops[j], ops[i]
	}
	return strings.Join(ops, " ")
}

func (b *seatBFS) violate(from int32, op seatOp, key, detail string, before, after *seatMirror) {
	if _, ok := b.violations[key]; ok {
		return
	}
	ops := b.path(from) + " " + op.String()
	d := fmt.Sprintf("%s\nseats=%d rule=%s\nhistory: %s\nbefore: %s", detail, b.n, b.rule, ops, before)
	if after != nil {
		d += "\nafter:  " + after.String()
	}
	clause, k := splitKey(key)
	b.violations[key] = &Violation{Suite: b.name, Clause: clause, Key: k, Detail: d, Ops: ops}
}

func (b *seatBFS) add(st seatState, from int32, op seatOp) {
	if _, ok := b.states[st]; ok {
		return
	}
	idx := int32(len(b.list))
	b.states[st] = idx
	b.list = append(b.list, st)
	b.parent = append(b.parent, from)
	b.parentOp = append(b.parentOp, op)
	d := int16(0)
	if from >= 0 {
		d = b.depth[from] + 1
	}
	b.depth = append(b.depth, d)
}

func (b *seatBFS) run(st *SuiteStats) {
	b.states = map[seatState]int32{}
	b.violations = map[string]*Violation{}
	init := mirrorOf(sm.NewSeatManager(b.n, b.rule))
	var miss0 []int8
	if b.trackMiss {
		miss0 = make([]int8, b.n)
	}
	b.add(init.compact(miss0), -1, seatOp{})
	capped := false
	fullDepth := -1
	t0 := time.Now()
	for head := 0; head < len(b.list); head++ {
		if head%2048 == 0 && (time.Now().After(deadline) || (b.budget > 0 && time.Since(t0) > b.budget)) {
			capped = true
			fullDepth = int(b.depth[head]) - 1
			break
		}
		cur := b.list[head]
		m, miss := seatExpand(cur, b.n, b.rule)
		var ops []seatOp
		occ := m.occupied()
		randomAdded := false
		for s := 0; s < b.n; s++ {
			p := m.SeatData[s]
			if p == nil {
				if occ < b.maxOcc {
					if b.lite {
						ops = append(ops, seatOp{kind: "sit", seat: s})
					} else {
						ops = append(ops, seatOp{kind: "assign", seat: s})
					}
					if !randomAdded {
						randomAdded = true
						if b.lite {
							ops = append(ops, seatOp{kind: "rsit", draw: 0})
						} else {
							ops = append(ops, seatOp{kind: "rassign", draw: 0})
						}
					}
				}
				continue
			}
			if !p.IsIn {
				ops = append(ops, seatOp{kind: "join", seat: s})
			}
			if p.HasChips {
				if !b.lite || p.IsIn {
					ops = append(ops, seatOp{kind: "bust", seat: s})
				}
			} else {
				ops = append(ops, seatOp{kind: "rebuy", seat: s})
			}
			ops = append(ops, seatOp{kind: "leave", seat: s})
		}
		if !m.IsInit {
			ops = append(ops, seatOp{kind: "init-first"}, seatOp{kind: "init-random", draw: 0})
		} else {
			ops = append(ops, seatOp{kind: "rotate"})
		}
		for i := 0; i < len(ops); i++ {
			op := ops[i]
			after, errStr, ndraws := seatApply(m, op)
			b.transitions++
			if (op.kind == "init-random" || op.kind == "rassign" || op.kind == "rsit") && op.draw == 0 {
				for d := 1; d < ndraws; d++ {
					ops = append(ops, seatOp{kind: op.kind, draw: d})
				}
			}
			if (op.kind == "rassign" || op.kind == "rsit") && after != nil {
				op.seat = -1
				for sx := 0; sx < b.n; sx++ {
					if p := after.SeatData[sx]; p != nil && p.ID == "tmp" {
						p.ID = fmt.Sprintf("p%d", sx)
						op.seat = sx
					}
				}
				if op.seat < 0 {
					if errStr == "" {
						b.violate(int32(head), op, "C05:random-seat-not-given", "RandomAssignSeats returned nil but the player holds no seat", m, after)
					}
					continue
				}
			}
			if after == nil {
				b.violate(int32(head), op, "panic@"+op.kind, errStr, m, nil)
				continue
			}
			newMiss := b.oracle(int32(head), op, m, after, errStr, miss)
			b.add(after.compact(newMiss), int32(head), op)
		}
	}
	st.States = len(b.list)
	st.Transitions = b.transitions
	st.Execs = b.transitions
	st.Capped = capped
	maxd := int16(0)
	for _, d := range b.depth {
		if d > maxd {
			maxd = d
		}
	}
	st.MaxTrace = int(maxd)
	if capped {
		st.Notes = append(st.Notes, fmt.Sprintf("%s: NOT closed (time cap): states=%d transitions=%d, every history of depth <= %d fully expanded", b.name, len(b.list), b.transitions, fullDepth))
	} else {
		st.Notes = append(st.Notes, fmt.Sprintf("%s: closed: states=%d transitions=%d depth=%d", b.name, len(b.list), b.transitions, maxd))
	}
	// sample: the deepest state's history
	if len(b.list) > 1 {
		st.Samples = append(st.Samples, b.path(int32(len(b.list)-1)))
		st.Samples = append(st.Samples, b.path(int32(len(b.list)/2)))
	}
	keys := make([]string, 0, len(b.violations))
	for k := range b.violations {
		keys = append(keys, k)
	}
	sort.Strings(keys)
	for _, k := range keys {
		st.Violations = append(st.Violations, *b.violations[k])
	}
	st.Outcomes = map[string]int{}
	for _, s := range b.list {
		// distinct button configurations as "outcomes"
		st.Outcomes[fmt.Sprintf("%s/N%d/%v", b.rule, b.n, []byte(s[b.n:b.n+4]))]++
	}
}

// oracle checks one edge and returns the updated miss counters (C05 clause 4).
func (b *seatBFS) oracle(from int32, op seatOp, before, after *seatMirror, errStr string, miss []int8) []int8 {
	n := b.n
	v := func(key, detail string) { b.violate(from, op, key, detail, before, after) }
	// invariants on every state
	for _, x := range []int{after.DealerSeatID, after.SBSeatID, after.BBSeatID} {
		if x < -1 || x >= n {
			v("button-out-of-range", fmt.Sprintf("button seat %d outside [0,%d)", x, n))
		}
	}
	if b.rule == sm.Rule_Default {
		set := 0
		for _, x := range []int{after.DealerSeatID, after.SBSeatID, after.BBSeatID} {
			if x >= 0 {
				set++
			}
		}
		if set != 0 && set != 3 {
			v("buttons-half-set", "dealer/SB/BB are partly set")
		}
		if after.IsInit && set != 3 {
			v("init-without-buttons", "positions marked initialised but a button seat is unset")
		}
	} else {
		if after.SBSeatID != -1 || after.BBSeatID != -1 {
			v("shortdeck-blinds-set", "short-deck table has SB/BB seats")
		}
	}
	newMiss := append([]int8(nil), miss...)
	switch op.kind {
	case "assign", "sit", "rassign", "rsit":
		p := after.SeatData[op.seat]
		if errStr == "" && p != nil {
			want := before.IsInit && b.rule == sm.Rule_Default && strictlyBetween(n, before.DealerSeatID, before.BBSeatID, op.seat)
			if p.IsBetweenDealerBB != want {
				v("C05:waiting-flag-at-seating", fmt.Sprintf("player seated at %d: waiting flag %v, expected %v (strictly between dealer %d and BB %d after positions were set)", op.seat, p.IsBetweenDealerBB, want, before.DealerSeatID, before.BBSeatID))
			}
		}
		if newMiss != nil {
			newMiss[op.seat] = 0
		}
	case "leave":
		if newMiss != nil {
			newMiss[op.seat] = 0
		}
	case "init-first", "init-random":
		liveN := before.count(before.active)
		if errStr != "" {
			if liveN >= 2 {
				v("init-refused", fmt.Sprintf("InitPositions refused (%s) with %d seated-in players with chips", errStr, liveN))
			}
			if after.DealerSeatID != before.DealerSeatID || after.SBSeatID != before.SBSeatID || after.BBSeatID != before.BBSeatID || after.IsInit {
				v("init-refused-moved", "a refused InitPositions changed the button seats")
			}
			return newMiss
		}
		if liveN < 2 {
			v("init-accepted", fmt.Sprintf("InitPositions succeeded with %d eligible players", liveN))
			return newMiss
		}
		if b.rule == sm.Rule_Default {
			bb := after.BBSeatID
			if !after.active(bb) {
				v("bb-not-dealt-in@init", fmt.Sprintf("BB seat %d holds no dealt-in player", bb))
			}
			if op.kind == "init-first" {
				first := -1
				for s := 0; s < n; s++ {
					if before.active(s) {
						first = s
						break
					}
				}
				if bb != first {
					v("init-first-bb", fmt.Sprintf("non-random init chose BB %d, first eligible seat is %d", bb, first))
				}
			}
			if liveN == 2 {
				other := after.nextWhere(bb, after.active)
				if after.DealerSeatID != other || after.SBSeatID != other {
					v("headsup-dealer-sb@init", fmt.Sprintf("two dealt in: dealer %d / SB %d, expected both %d", after.DealerSeatID, after.SBSeatID, other))
				}
			} else {
				sb := after.prevWhere(bb, after.active)
				d := after.prevWhere(sb, after.active)
				if after.SBSeatID != sb || after.DealerSeatID != d {
					v("init-walk-back", fmt.Sprintf("dealer %d / SB %d, expected %d / %d walking back from BB %d", after.DealerSeatID, after.SBSeatID, d, sb, bb))
				}
				if d == sb || sb == bb || d == bb {
					v("buttons-not-distinct@init", "three or more dealt in but dealer/SB/BB are not distinct")
				}
			}
		} else {
			if !after.active(after.DealerSeatID) {
				v("dealer-not-dealt-in@init", "short deck: dealer seat holds no dealt-in player")
			}
		}
		b.missStep(newMiss, nil, after, v)
	case "rotate":
		liveN := before.count(before.live)
		if errStr != "" {
			if after.DealerSeatID != before.DealerSeatID || after.SBSeatID != before.SBSeatID || after.BBSeatID != before.BBSeatID {
				v("refusal-moved-buttons", "a refused rotation changed the button seats")
			}
			if liveN >= 2 {
				pat := "other"
				if b.rule == sm.Rule_Default && after.count(after.active) < 2 {
					pat = "live-players-carry-waiting-flag"
				}
				v("refused-with-two-live@"+pat, fmt.Sprintf("rotation refused (%s) although %d seated-in players have chips", errStr, liveN))
			}
			// a refused rotation re-evaluates the waiting flags against a degenerate arc: the re-entry clause
			// below only speaks about players whose last evaluation happened at a successful rotation
			for i := range newMiss {
				newMiss[i] &^= 8
			}
			return newMiss
		}
		if liveN < 2 {
			v("rotated-with-one-live", fmt.Sprintf("rotation accepted with %d seated-in players with chips", liveN))
			return newMiss
		}
		dealt := after.count(after.active)
		if b.rule != sm.Rule_Default {
			want := before.nextWhere(before.DealerSeatID, after.active)
			if after.DealerSeatID != want {
				v("shortdeck-dealer", fmt.Sprintf("dealer moved to %d, next dealt-in seat is %d", after.DealerSeatID, want))
			}
			b.missStep(newMiss, before, after, v)
			return newMiss
		}
		wantBB := before.nextWhere(before.BBSeatID, before.live)
		if after.BBSeatID != wantBB {
			v("bb-not-next-live", fmt.Sprintf("BB moved %d -> %d, next seated-in player with chips is at %d", before.BBSeatID, after.BBSeatID, wantBB))
		}
		if !after.active(after.BBSeatID) {
			v("bb-not-dealt-in", fmt.Sprintf("BB seat %d holds no dealt-in player", after.BBSeatID))
		}
		if dealt < 2 {
			v("fewer-than-two-dealt-in", fmt.Sprintf("rotation succeeded with %d dealt in", dealt))
		} else if dealt == 2 {
			other := after.nextWhere(after.BBSeatID, after.active)
			if after.DealerSeatID != other || after.SBSeatID != other {
				v("headsup-dealer-sb", fmt.Sprintf("two dealt in: dealer %d / SB %d, expected both %d", after.DealerSeatID, after.SBSeatID, other))
			}
		} else {
			if after.SBSeatID != before.BBSeatID {
				v("sb-not-old-bb", fmt.Sprintf("SB %d, previous BB %d", after.SBSeatID, before.BBSeatID))
			}
			wasHU := before.DealerSeatID == before.SBSeatID && before.BBSeatID != before.DealerSeatID
			if wasHU {
				want := before.prevWhere(after.SBSeatID, before.live)
				if after.DealerSeatID != want {
					v("dealer-after-headsup", fmt.Sprintf("dealer %d, nearest live seat before SB %d is %d", after.DealerSeatID, after.SBSeatID, want))
				}
			} else if after.DealerSeatID != before.SBSeatID {
				v("dealer-not-old-sb", fmt.Sprintf("dealer %d, previous SB %d", after.DealerSeatID, before.SBSeatID))
			}
			if after.DealerSeatID == after.SBSeatID || after.SBSeatID == after.BBSeatID || after.DealerSeatID == after.BBSeatID {
				pat := ""
				if after.DealerSeatID == after.BBSeatID {
					pat += "dealer=bb"
				}
				if after.DealerSeatID == after.SBSeatID {
					pat += "dealer=sb"
				}
				if after.SBSeatID == after.BBSeatID {
					pat += "sb=bb"
				}
				if after.BBSeatID == before.SBSeatID {
					pat += "/bb-moved-onto-previous-sb-seat"
				}
				if wasHU {
					pat += "/after-headsup"
				}
				v("buttons-not-distinct@"+pat, fmt.Sprintf("three or more dealt in but D%d/SB%d/BB%d are not distinct", after.DealerSeatID, after.SBSeatID, after.BBSeatID))
			}
		}
		// C05: a player who was not live (busted, or seated but not sat in) at the previous rotation and is live now
		// re-enters on a newcomer's terms. Only the clear-cut case is asserted: his seat lay strictly between button
		// and BB at the previous rotation and still does after this one, three or more are dealt in, no heads-up
		// transition is involved - then he must be waiting.
		establishedLive := 0 // players dealt into the previous hand who are still live: if fewer than two, nobody is made to wait
		for s := 0; s < n; s++ {
			if before.active(s) {
				establishedLive++
			}
		}
		if miss != nil && dealt >= 3 && establishedLive >= 2 {
			huBefore := before.DealerSeatID == before.SBSeatID
			huAfter := after.DealerSeatID == after.SBSeatID
			for s := 0; s < n && !huBefore && !huAfter; s++ {
				if miss[s]&8 == 0 || !before.live(s) {
					continue
				}
				if strictlyBetween(n, before.DealerSeatID, before.BBSeatID, s) && strictlyBetween(n, after.DealerSeatID, after.BBSeatID, s) && after.active(s) {
					v("C05:reentrant-dealt-in-between-button-and-bb", fmt.Sprintf("seat %d was not eligible at the previous rotation (busted or not sat in), has re-bought / sat in since and lies strictly between button %d and BB %d (as it did before: %d..%d), yet it is dealt in instead of waiting for the big blind", s, after.DealerSeatID, after.BBSeatID, before.DealerSeatID, before.BBSeatID))
				}
			}
		}
		// C05 (6) release: a waiting player whose seat is the new BB seat is dealt in (covered by bb-not-dealt-in)
		// C05: rotation never makes an active player wait
		for s := 0; s < n; s++ {
			if before.active(s) && before.live(s) && !after.active(s) {
				v("C05:dealt-in-player-made-to-wait", fmt.Sprintf("seat %d was dealt in, still has chips and is seated, but is not dealt into the next hand", s))
			}
		}
		b.missStep(newMiss, before, after, v)
	}
	return newMiss
}

// missStep updates the per-seat counter of consecutive hands missed while seated-in with chips.
func (b *seatBFS) missStep(miss []int8, before, after *seatMirror, v func(string, string)) {
	if miss == nil {
		return
	}
	for s := 0; s < b.n; s++ {
		cnt := miss[s] & 7
		if after.live(s) && !after.active(s) {
			if cnt < 4 {
				cnt++
			}
			if cnt > 3 {
				// discriminate: is the player waiting because the rotation rule says so (still strictly between the
				// seat the rule takes as dealer - the previous SB seat - and the new BB), or is the flag stuck?
				pat := "flag-stuck"
				if before != nil && strictlyBetween(b.n, before.SBSeatID, after.BBSeatID, s) {
					pat = "still-between-previous-sb-and-new-bb"
				}
				v("C05:missed-more-than-three@"+pat, fmt.Sprintf("seat %d is seated-in with chips and has now missed %d hands in a row", s, cnt))
			}
		} else {
			cnt = 0
		}
		// bit 8: occupied but not live (busted / not sat in) at this *rotation* (the initial positioning makes
		// nobody wait: a player given his seat before positions were set is outside the waiting rule)
		if before != nil && after.SeatData[s] != nil && !after.live(s) {
			cnt |= 8
		}
		miss[s] = cnt
	}
}

var seatBudget time.Duration

func seatSuite(n int, rule string, maxOcc int, trackMiss bool, lite bool) *Suite {
	name := fmt.Sprintf("seat/N%d/%s/occ%d", n, rule, maxOcc)
	if lite {
		name += "/lite"
	}
	if trackMiss {
		name += "/miss"
	}
	w := 1
	for i := 0; i < maxOcc; i++ {
		w *= 8
	}
	return &Suite{Name: name, Weight: w * n, Direct: func(st *SuiteStats) {
		b := &seatBFS{n: n, rule: rule, maxOcc: maxOcc, trackMiss: trackMiss, lite: lite, name: name, budget: seatBudget}
		b.run(st)
	}}
}

func seatSuites(tier string, trackMiss bool) []*Suite {
	var ss []*Suite
	def, sd := sm.Rule_Default, sm.Rule_ShortDeck
	seatBudget = 0
	if tier == "quick" {
		seatBudget = 40 * time.Second
		for _, n := range []int{8, 9, 10} {
			ss = append(ss, seatSuite(n, def, 2, trackMiss, false))
		}
		for _, n := range []int{2, 3, 4} {
			ss = append(ss, seatSuite(n, def, n, trackMiss, false))
			ss = append(ss, seatSuite(n, sd, n, false, false))
		}
		for _, n := range []int{5, 6, 7, 8, 9, 10} {
			ss = append(ss, seatSuite(n, def, 3, trackMiss, true))
		}
		for _, n := range []int{6, 9, 10} {
			ss = append(ss, seatSuite(n, sd, 3, false, true))
		}
	} else {
		for _, n := range []int{2, 3, 4, 5} {
			ss = append(ss, seatSuite(n, def, n, trackMiss, false))
			ss = append(ss, seatSuite(n, sd, n, false, false))
		}
		for _, n := range []int{6, 7, 8, 9, 10} {
			ss = append(ss, seatSuite(n, def, 4, trackMiss, true))
			ss = append(ss, seatSuite(n, sd, 4, false, true))
		}
	}
	return ss
}

func filterViolations(ss []*Suite, keep func(key string) bool) []*Suite {
	var out []*Suite
	for _, s := range ss {
		s := s
		d := s.Direct
		out = append(out, &Suite{Name: s.Name, Weight: s.Weight, Direct: func(st *SuiteStats) {
			d(st)
			var vs []Violation
			for _, v := range st.Violations {
				if keep(v.Key) {
					vs = append(vs, v)
				}
			}
			st.Violations = vs
		}})
	}
	return out
}

func init() {
	register(&Check{
		ID:    "C04",
		Level: "model_checking",
		Rule:  "explicit-state BFS over the real seat manager: states are its exported fields (players named by seat), each transition is one real API call (assign/join/bust/rebuy/leave/init with every random draw/rotate) on a clone restored from the state; every init/rotate edge is compared with an independent reference of the dead-button rule; a state is distinct by its canonical encoding, outcomes are distinct button configurations",
		Assumptions: []string{
			"players are named by their seat (the seat manager uses ids only as lookup keys)",
			"random first-BB: every draw of the shuffle's first position is enumerated",
			"closure is reached for the listed (seat count, occupancy cap) pairs; larger occupancies on 6..10 seats are not covered",
		},
		Suites: func(tier string) []*Suite {
			return filterViolations(seatSuites(tier, false), func(k string) bool { return !strings.HasPrefix(k, "C05:") })
		},
	})
}
