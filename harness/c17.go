package main

// C17 — manager tables are isolated and manager calls equal engine calls (differential).

import (
	"fmt"
	"sort"
	"strings"

	pt "github.com/weedbox/pokertable"
	"verif.local/vrt"
)

type mgrOp struct {
	method string
	who    string // "cur" (player to act), "a", "b", "ghost", ""
}

func (o mgrOp) String() string {
	if o.who != "" {
		return o.method + "(" + o.who + ")"
	}
	return o.method
}

var mgrOps = func() []mgrOp {
	var ops []mgrOp
	for _, m := range []string{"PauseTable", "CloseTable", "ReleaseTable", "StartTableGame", "SetUpTableGame", "UpdateBlind", "UpdateBlind=", "GetTableEngine", "UpdateTablePlayers+", "UpdateTablePlayers-"} {
		ops = append(ops, mgrOp{method: m})
	}
	for _, m := range []string{"PlayerReserve", "PlayerJoin", "PlayerSettlementFinish", "PlayerRedeemChips", "PlayersLeave", "PlayerExtendActionDeadline",
		"PlayerReady", "PlayerPay", "PlayerBet", "PlayerRaise", "PlayerCall", "PlayerAllin", "PlayerCheck", "PlayerFold", "PlayerPass"} {
		for _, w := range []string{"cur", "ghost"} {
			ops = append(ops, mgrOp{method: m, who: w})
		}
	}
	ops = append(ops, mgrOp{method: "PlayerReserve", who: "new"}, mgrOp{method: "PlayersLeave", who: "a"})
	// not addressed to an existing table: one more table is created in the same manager (and its twin
	// stand-alone); later calls may address it, and calls addressed to the older tables must still reach them
	ops = append(ops, mgrOp{method: "CreateTable"})
	// a creation the engine rejects (more preset players than seats): addressed to a fresh id, or to the id of a live table
	ops = append(ops, mgrOp{method: "CreateTable-rejected"})
	return ops
}()

// pair: a manager-held table and its stand-alone twin engine
type mgrPair struct {
	id   string
	mtd  *TD // created through the manager
	ttd  *TD // stand-alone twin
	gone bool
}

// canonTable: table state with everything that depends on the (uncontrolled, native) deck removed.
func canonTable(t *pt.Table) string {
	if t == nil {
		return "nil"
	}
	c := deepCopy(t)
	c.UpdateAt = 0
	st := c.State
	st.StartAt = 0
	if st.GameState != nil {
		gs := st.GameState
		gs.GameID, gs.CreatedAt, gs.UpdatedAt = "", 0, 0
		gs.Meta.Deck = nil
		gs.Status.Board, gs.Status.Burned = nil, nil
		for _, p := range gs.Players {
			p.HoleCards, p.Combination = nil, nil
		}
	}
	if st.LastPlayerGameAction != nil {
		st.LastPlayerGameAction.GameID = ""
	}
	js, _ := c.GetJSON()
	return js
}

func errStr(err error) string {
	if err == nil {
		return "<nil>"
	}
	return err.Error()
}

func curPlayerID(td *TD) string {
	p := td.pending()
	if len(p.Players) > 0 {
		return p.Players[0]
	}
	t := td.table()
	if len(t.State.PlayerStates) > 0 {
		return t.State.PlayerStates[0].PlayerID
	}
	return "a"
}

// callBoth applies op to manager table `id` and to the twin engine; returns the two results rendered.
func callBoth(m pt.Manager, p *mgrPair, id string, op mgrOp, newID string) (string, string) {
	var te pt.TableEngine
	if p != nil {
		te = p.ttd.te
	}
	who := op.who
	switch who {
	case "cur":
		if p != nil {
			who = curPlayerID(p.ttd)
		} else {
			who = "a"
		}
	case "new":
		who = newID
	}
	jp := pt.JoinPlayer{PlayerID: who, RedeemChips: 4, Seat: -1}
	var a, b string
	r := func(err error) string { return errStr(err) }
	switch op.method {
	case "PauseTable":
		a = r(m.PauseTable(id))
		if te != nil {
			b = r(te.PauseTable())
		}
	case "CloseTable":
		a = r(m.CloseTable(id))
		if te != nil {
			b = r(te.CloseTable())
		}
	case "ReleaseTable":
		a = r(m.ReleaseTable(id))
		if te != nil {
			b = r(te.ReleaseTable())
		}
	case "StartTableGame":
		a = r(m.StartTableGame(id))
		if te != nil {
			b = r(te.StartTableGame())
		}
	case "SetUpTableGame":
		parts := map[string]int{"a": 0, "b": 1}
		a = r(m.SetUpTableGame(id, 7, parts))
		if te != nil {
			te.SetUpTableGame(7, map[string]int{"a": 0, "b": 1})
			b = "<nil>"
		}
	case "UpdateBlind":
		a = r(m.UpdateBlind(id, 2, 0, 0, 2, 4))
		if te != nil {
			te.UpdateBlind(2, 0, 0, 2, 4)
			b = "<nil>"
		}
	case "UpdateBlind=":
		// same level number as the table's current one, other amounts (ante switched on, blinds corrected)
		lvl := 1
		if te != nil {
			lvl = te.GetTable().State.BlindState.Level
		}
		a = r(m.UpdateBlind(id, lvl, 1, 0, 3, 6))
		if te != nil {
			te.UpdateBlind(lvl, 1, 0, 3, 6)
			b = "<nil>"
		}
	case "GetTableEngine":
		e, err := m.GetTableEngine(id)
		a = r(err)
		if err == nil && p != nil && p.mtd.te == nil {
			p.mtd.te = e // table created during the sequence: this is the first look-up of its engine
		}
		if err == nil && p != nil && e != p.mtd.te {
			a = "returned a different engine"
		}
		if te != nil {
			b = "<nil>"
		}
	case "UpdateTablePlayers+":
		mp, err := m.UpdateTablePlayers(id, []pt.JoinPlayer{{PlayerID: newID, RedeemChips: 4, Seat: -1}}, nil)
		a = fmt.Sprintf("%v %v", sortedMap(mp), errStr(err))
		if te != nil {
			mp2, err2 := te.UpdateTablePlayers([]pt.JoinPlayer{{PlayerID: newID, RedeemChips: 4, Seat: -1}}, nil)
			b = fmt.Sprintf("%v %v", sortedMap(mp2), errStr(err2))
		}
	case "UpdateTablePlayers-":
		mp, err := m.UpdateTablePlayers(id, nil, []string{"b"})
		a = fmt.Sprintf("%v %v", sortedMap(mp), errStr(err))
		if te != nil {
			mp2, err2 := te.UpdateTablePlayers(nil, []string{"b"})
			b = fmt.Sprintf("%v %v", sortedMap(mp2), errStr(err2))
		}
	case "PlayerReserve":
		a = r(m.PlayerReserve(id, jp))
		if te != nil {
			b = r(te.PlayerReserve(jp))
		}
	case "PlayerJoin":
		a = r(m.PlayerJoin(id, who))
		if te != nil {
			b = r(te.PlayerJoin(who))
		}
	case "PlayerSettlementFinish":
		a = r(m.PlayerSettlementFinish(id, who))
		if te != nil {
			b = r(te.PlayerSettlementFinish(who))
		}
	case "PlayerRedeemChips":
		a = r(m.PlayerRedeemChips(id, jp))
		if te != nil {
			b = r(te.PlayerRedeemChips(jp))
		}
	case "PlayersLeave":
		a = r(m.PlayersLeave(id, []string{who}))
		if te != nil {
			b = r(te.PlayersLeave([]string{who}))
		}
	case "PlayerExtendActionDeadline":
		v, err := m.PlayerExtendActionDeadline(id, who, 5)
		a = fmt.Sprintf("%d %s", v, errStr(err))
		if te != nil {
			v2, err2 := te.PlayerExtendActionDeadline(who, 5)
			b = fmt.Sprintf("%d %s", v2, errStr(err2))
		}
	case "PlayerReady":
		a = r(m.PlayerReady(id, who))
		if te != nil {
			b = r(te.PlayerReady(who))
		}
	case "PlayerPay":
		a = r(m.PlayerPay(id, who, 2))
		if te != nil {
			b = r(te.PlayerPay(who, 2))
		}
	case "PlayerBet":
		a = r(m.PlayerBet(id, who, 2))
		if te != nil {
			b = r(te.PlayerBet(who, 2))
		}
	case "PlayerRaise":
		a = r(m.PlayerRaise(id, who, 4))
		if te != nil {
			b = r(te.PlayerRaise(who, 4))
		}
	case "PlayerCall":
		a = r(m.PlayerCall(id, who))
		if te != nil {
			b = r(te.PlayerCall(who))
		}
	case "PlayerAllin":
		a = r(m.PlayerAllin(id, who))
		if te != nil {
			b = r(te.PlayerAllin(who))
		}
	case "PlayerCheck":
		a = r(m.PlayerCheck(id, who))
		if te != nil {
			b = r(te.PlayerCheck(who))
		}
	case "PlayerFold":
		a = r(m.PlayerFold(id, who))
		if te != nil {
			b = r(te.PlayerFold(who))
		}
	case "PlayerPass":
		a = r(m.PlayerPass(id, who))
		if te != nil {
			b = r(te.PlayerPass(who))
		}
	default:
		panic("op " + op.method)
	}
	return a, b
}

func sortedMap(m map[string]int) string {
	var ks []string
	for k, v := range m {
		ks = append(ks, fmt.Sprintf("%s:%d", k, v))
	}
	sort.Strings(ks)
	return strings.Join(ks, ",")
}

func c17Run(prefix []int, base string, ntables int, depth int, firstTarget int, opShard, opShards int) *vrt.Exec {
	return runTable(prefix, vrt.Config{}, func(env *vrt.Env) (string, string, string) {
		m := pt.NewManager()
		var pairs []*mgrPair
		for i := 0; i < ntables; i++ {
			cfg := defaultCfg(4)
			cfg.ID = fmt.Sprintf("T%d", i+1)
			cfg.Deck = "plain"
			mtd, err := newTDManaged(env, cfg, m)
			if err != nil {
				return "", "harness-create", err.Error()
			}
			ttd, err := newTD(env, cfg)
			if err != nil {
				return "", "harness-create", err.Error()
			}
			ttd.be.deckKind = "plain"
			pairs = append(pairs, &mgrPair{id: cfg.ID, mtd: mtd, ttd: ttd})
		}
		// bring every pair to the base state with the same scripted calls
		pol := &HandPolicy{Line: lineFoldOut, Finish: "all"}
		for _, p := range pairs {
			for _, td := range []*TD{p.mtd, p.ttd} {
				switch base {
				case "fresh":
				case "seated", "wager", "standby":
					td.seatIn([]string{"a", "b", "c"}, []int{0, 1, 2}, []int64{9, 9, 9})
				}
			}
		}
		if base == "wager" || base == "standby" {
			for _, p := range pairs {
				for _, td := range []*TD{p.mtd, p.ttd} {
					td.start()
				}
			}
			for _, p := range pairs {
				for _, td := range []*TD{p.mtd, p.ttd} {
					ok := td.runUntil(pol, 200, func() bool {
						if base == "wager" {
							return td.pending().Kind == "wager"
						}
						return td.status() == pt.TableStateStatus_TableGameStandby
					})
					if !ok {
						return "", "harness-base", fmt.Sprintf("table %s did not reach base %s (status %s)", td.table().ID, base, td.status())
					}
				}
			}
		}
		compare := func(where string) *Viol {
			for _, p := range pairs {
				if p.mtd.te == nil {
					continue // created during the sequence: compared at the end
				}
				a, b := canonTable(p.mtd.table()), canonTable(p.ttd.table())
				if a != b {
					return &Viol{Key: "state-differs", Detail: fmt.Sprintf("%s: table %s held by the manager differs from its stand-alone twin\nmanager: %s\ntwin:    %s", where, p.id, a, b)}
				}
			}
			return nil
		}
		if v := compare("base state " + base); v != nil {
			return "", "harness-twin-mismatch", v.Detail
		}
		var hist []string
		nextNew := 0
		for d := 0; d < depth; d++ {
			targets := len(pairs) + 1 // + unknown id
			var ti, oi int
			if d == 0 {
				// the first call's target and a share of the operations are fixed per suite (sharding)
				ti = firstTarget
				var mine []int
				for i := range mgrOps {
					if i%opShards == opShard {
						mine = append(mine, i)
					}
				}
				oi = mine[env.Choose(len(mine), "op")]
			} else {
				ti = env.Choose(targets, "target")
				oi = env.Choose(len(mgrOps), "op")
			}
			op := mgrOps[oi]
			nextNew++
			newID := fmt.Sprintf("n%d", nextNew)
			var p *mgrPair
			id := "no-such-table"
			if ti < len(pairs) {
				p = pairs[ti]
				id = p.id
			}
			if op.method == "CreateTable-rejected" {
				cfg := defaultCfg(2)
				cfg.ID = id
				if p == nil {
					cfg.ID = fmt.Sprintf("R%d", d+1)
				}
				cfg.Deck = "plain"
				cfg.Join = []pt.JoinPlayer{{PlayerID: "j1", RedeemChips: 5, Seat: -1}, {PlayerID: "j2", RedeemChips: 5, Seat: -1}, {PlayerID: "j3", RedeemChips: 5, Seat: -1}}
				_, err := newTDManagedLazy(env, cfg, m)
				hist = append(hist, "CreateTable-rejected("+cfg.ID+")")
				env.Settle()
				if err == nil {
					return strings.Join(hist, " "), "result-differs@CreateTable", fmt.Sprintf("Manager.CreateTable(%s) with three preset players on two seats returned nil\nhistory: %v", cfg.ID, hist)
				}
				if p == nil || p.gone {
					if _, gerr := m.GetTableEngine(cfg.ID); gerr == nil {
						return strings.Join(hist, " "), "table-found-after-rejected-create", fmt.Sprintf("Manager.CreateTable(%s) failed (%v) but the id is now known to the manager\nhistory: %v", cfg.ID, err, hist)
					}
				} else if te, gerr := m.GetTableEngine(cfg.ID); gerr != nil || (p.mtd.te != nil && te != p.mtd.te) {
					return strings.Join(hist, " "), "live-table-replaced-by-rejected-create", fmt.Sprintf("Manager.CreateTable(%s) failed (%v); the live table of that id is no longer the one the manager answers for (%v)\nhistory: %v", cfg.ID, err, gerr, hist)
				}
				if v := compare("after " + strings.Join(hist, " ")); v != nil {
					return strings.Join(hist, " "), v.Key + "@" + op.method, v.Detail + "\nbase: " + base + "\nhistory: " + strings.Join(hist, " ")
				}
				continue
			}
			if op.method == "CreateTable" {
				if ti != 0 {
					hist = append(hist, "-")
					continue // the call has no target: counted once
				}
				cfg := defaultCfg(4)
				cfg.ID = fmt.Sprintf("N%d", d+1)
				cfg.Deck = "plain"
				// the engine handle of the new table is looked up only at the end of the sequence, so that
				// the harness itself places no manager call between the creation and the next call
				mtd, err := newTDManagedLazy(env, cfg, m)
				if err != nil {
					return strings.Join(hist, " "), "result-differs@CreateTable", fmt.Sprintf("Manager.CreateTable(%s) failed: %v\nhistory: %v", cfg.ID, err, hist)
				}
				ttd, err := newTD(env, cfg)
				if err != nil {
					return "", "harness-create", err.Error()
				}
				ttd.be.deckKind = "plain"
				pairs = append(pairs, &mgrPair{id: cfg.ID, mtd: mtd, ttd: ttd})
				hist = append(hist, "CreateTable("+cfg.ID+")")
				env.Settle()
				if v := compare("after " + strings.Join(hist, " ")); v != nil {
					return strings.Join(hist, " "), v.Key + "@" + op.method, v.Detail + "\nbase: " + base + "\nhistory: " + strings.Join(hist, " ")
				}
				continue
			}
			hist = append(hist, fmt.Sprintf("%s.%s", id, op))
			var a, b string
			if p != nil && p.gone {
				a, _ = callBoth(m, nil, id, op, newID)
				b = pt.ErrManagerTableNotFound.Error()
			} else {
				a, b = callBoth(m, p, id, op, newID)
				if p == nil {
					b = pt.ErrManagerTableNotFound.Error()
				}
			}
			env.Settle()
			if op.method == "GetTableEngine" && p != nil && !p.gone && a == "<nil>" {
				b = "<nil>"
			}
			if strings.HasPrefix(op.method, "UpdateTablePlayers") && (p == nil || p.gone) {
				a = strings.TrimSpace(strings.TrimPrefix(a, " "))
				if strings.HasSuffix(a, pt.ErrManagerTableNotFound.Error()) {
					a = pt.ErrManagerTableNotFound.Error()
				}
			}
			if op.method == "PlayerExtendActionDeadline" && (p == nil || p.gone) {
				if strings.HasSuffix(a, pt.ErrManagerTableNotFound.Error()) {
					a = pt.ErrManagerTableNotFound.Error()
				}
			}
			if a != b {
				return strings.Join(hist, " "), "result-differs@" + op.method, fmt.Sprintf("Manager.%s on table %s returned %q, the same call on the table's engine returns %q\nbase: %s\nhistory: %v", op, id, a, b, base, hist)
			}
			if v := compare("after " + strings.Join(hist, " ")); v != nil {
				return strings.Join(hist, " "), v.Key + "@" + op.method, v.Detail + "\nbase: " + base + "\nhistory: " + strings.Join(hist, " ")
			}
			if p != nil && !p.gone && (op.method == "CloseTable" || op.method == "ReleaseTable") && a == "<nil>" {
				p.gone = true
			}
			// let asynchronous consequences (timers) play out identically on both sides
			for i := 0; i < 4 && env.PendingTimers() > 0; i++ {
				env.AdvanceTimer()
				env.Settle()
			}
			if v := compare("after timers following " + strings.Join(hist, " ")); v != nil {
				return strings.Join(hist, " "), v.Key + "@" + op.method, v.Detail + "\nbase: " + base + "\nhistory: " + strings.Join(hist, " ")
			}
		}
		for _, p := range pairs {
			if p.mtd.te == nil {
				te, err := m.GetTableEngine(p.id)
				if p.gone {
					continue
				}
				if err != nil {
					return strings.Join(hist, " "), "result-differs@GetTableEngine", fmt.Sprintf("table %s created during the sequence is not found at its end: %v\nhistory: %v", p.id, err, hist)
				}
				p.mtd.te = te
			}
		}
		if v := compare("end of " + strings.Join(hist, " ")); v != nil {
			return strings.Join(hist, " "), v.Key + "@end", v.Detail + "\nbase: " + base + "\nhistory: " + strings.Join(hist, " ")
		}
		return base + ": " + strings.Join(hist, " "), "", ""
	})
}

func init() {
	register(&Check{
		ID: "C17", Level: "model_checking",
		Rule:        "a Manager with 2 (quick) / 3 tables next to stand-alone twin engines created with the same settings and driven to the same base state (fresh, players seated, hand at first wager request, standby); every sequence of manager calls (25 methods x {player to act, unknown player, new player}, plus the creation of a further table and a creation the engine rejects, addressed to a fresh id or to the id of a live table) of length <= depth addressed to each table and to an unknown id, applied to the manager and mirrored on the addressed table's twin only; results must be equal, every manager table must stay equal to its twin (so bystanders are untouched), unknown / closed / released ids must give the table-not-found error",
		Assumptions: []string{"the Manager installs its own native backend whose deck is shuffled by an uncontrolled generator, so cards are excluded from the comparison and base hands are fold-outs", "random seats take the first draw on both sides"},
		Suites: func(tier string) []*Suite {
			var ss []*Suite
			nt, depth := 2, 2
			if tier == "thorough" {
				nt, depth = 3, 3
			}
			for _, base := range []string{"fresh", "seated", "wager", "standby"} {
				base := base
				d := depth
				if tier == "thorough" && (base == "wager" || base == "standby") {
					d = 2
				}
				shards := 1
				if base == "wager" || base == "standby" {
					shards = 2
				}
				for ft := 0; ft <= nt; ft++ {
					for sh := 0; sh < shards; sh++ {
						ft, sh := ft, sh
						ss = append(ss, &Suite{Name: fmt.Sprintf("c17/%s/tables%d/depth%d/first-target%d/ops%d of %d", base, nt, d, ft, sh, shards), Bound: 0, Weight: d * shards, Run: func(prefix []int) *vrt.Exec { return c17Run(prefix, base, nt, d, ft, sh, shards) }})
					}
				}
			}
			return ss
		},
	})
}
