package main

// Generic scenario runner for table/hand harnesses: seats players, plays hands answering every
// request at quiescent points, and lets property monitors observe every quiescent point, every
// API action (with the table before it) and the end of the run.

import (
	"fmt"
	"sort"
	"strings"

	"github.com/weedbox/pokerface"
	pt "github.com/weedbox/pokertable"
	"verif.local/vrt"
)

type Viol struct {
	Key    string
	Detail string
}

type ActEvent struct {
	Kind          string // ready ante blinds wager finish
	ID            string
	Action        string
	Amount        int64
	Err           error
	Before        *pt.Table
	BeforeJSON    string
	BeforeCalls   int
	BeforeActs    int
	BeforeApplied int
	Remaining     int // responses still outstanding after this one (ready/ante/blinds)
	P             Pending
	VTime         int64
}

type Monitor interface {
	Quiescent(td *TD, p Pending) *Viol
	After(td *TD, ev *ActEvent) *Viol
	End(td *TD) *Viol
}

type baseMon struct{}

func (baseMon) Quiescent(td *TD, p Pending) *Viol { return nil }
func (baseMon) After(td *TD, ev *ActEvent) *Viol  { return nil }
func (baseMon) End(td *TD) *Viol                  { return nil }

type handCfg struct {
	name        string
	tcfg        TableCfg
	ids         []string
	seatOf      []int
	stacks      []int64
	sitOut      bool // reserve "so" (never joined) on the first free seat
	sitOutFirst bool // reserve "so" before the others, so that it holds player-list index 0 (list index != hand index)
	hands       int
	line        Line
	pol         HandPolicy
	advance     int64                           // seconds the clock is advanced before each wager action (when no timer is due earlier)
	atWager     func(td *TD, hand int, nth int) // called at each wager request before acting (nth = index within the hand)
	between     func(td *TD, hand int)          // called when hand `hand` has been settled and the table is in standby
	late        func(td *TD, hand int)          // called in standby once the next hand has been set up (open-game wait)
	retry       func(td *TD, hand int)          // called once per hand number while tableGameOpen sleeps in its retry loop
	maxSteps    int
}

type runner struct {
	taint       func() string
	td          *TD
	hc          *handCfg
	mons        []Monitor
	viol        *Viol
	wagerN      map[int]int
	betweenDone map[int]bool
	lateDone    map[int]bool
	retryDone   map[int]bool
}

func (r *runner) check(v *Viol) bool {
	if v != nil && r.taint != nil && r.taint() != "" {
		v = &Viol{Key: r.taint(), Detail: "[" + v.Key + "] " + v.Detail}
	}
	if v != nil && hitKnown(v.Key, v.Detail+"\nconfig: "+r.hc.name+"\nops: "+r.td.opsString()) {
		return r.viol != nil
	}
	if v != nil && r.viol == nil {
		r.viol = v
	}
	return r.viol != nil
}

func (r *runner) before() *ActEvent {
	c, js := cloneTable(r.td.table())
	return &ActEvent{Before: c, BeforeJSON: js, BeforeCalls: len(r.td.be.calls), BeforeActs: len(r.td.actions), BeforeApplied: r.td.be.applied, VTime: r.td.env.Now()}
}

func (r *runner) after(ev *ActEvent) bool {
	r.td.env.Settle()
	for _, m := range r.mons {
		if r.check(m.After(r.td, ev)) {
			return true
		}
	}
	return false
}

// run plays the configured number of hands; returns outcome summary.
func (r *runner) run() string {
	td, hc := r.td, r.hc
	pol := &hc.pol
	if pol.Line == nil {
		pol.Line = hc.line
	}
	maxSteps := hc.maxSteps
	if maxSteps == 0 {
		maxSteps = 300 * hc.hands
	}
	done := func() bool {
		t := td.table()
		if t.State.GameCount > hc.hands {
			return true
		}
		st := t.State.Status
		return t.State.GameCount == hc.hands && (st == pt.TableStateStatus_TableGameStandby || st == pt.TableStateStatus_TablePausing || st == pt.TableStateStatus_TableClosed)
	}
	wedged := false
	for step := 0; step < maxSteps; step++ {
		td.env.Settle()
		if done() {
			break
		}
		p := td.pending()
		for _, m := range r.mons {
			if r.check(m.Quiescent(td, p)) {
				return "violation"
			}
		}
		t := td.table()
		if hc.between != nil && t.State.Status == pt.TableStateStatus_TableGameStandby && !r.betweenDone[t.State.GameCount] && t.State.GameCount >= 1 {
			r.betweenDone[t.State.GameCount] = true
			hc.between(td, t.State.GameCount)
			continue
		}
		if hc.retry != nil && t.State.GameState == nil && td.env.Sleepers() > 0 && !r.retryDone[t.State.GameCount] {
			r.retryDone[t.State.GameCount] = true
			hc.retry(td, t.State.GameCount)
			continue
		}
		if hc.late != nil && t.State.Status == pt.TableStateStatus_TableGameStandby && !r.lateDone[t.State.GameCount] && t.State.GameCount >= 1 {
			if og := pt.VerifOpenGameManager(td.te); og != nil && og.GetState().GameCount == t.State.GameCount+1 {
				r.lateDone[t.State.GameCount] = true
				hc.late(td, t.State.GameCount)
				continue
			}
		}
		switch p.Kind {
		case "ready", "ante", "blinds":
			ids := append([]string{}, p.Players...)
			if pol.Reverse {
				for i, j := 0, len(ids)-1; i < j; i, j = i+1, j-1 {
					ids[i], ids[j] = ids[j], ids[i]
				}
			}
			var send []string
			for _, id := range ids {
				if !pol.Withhold[id] {
					send = append(send, id)
				}
			}
			if len(send) > 0 {
				for i, id := range send {
					ev := r.before()
					ev.Kind, ev.ID, ev.P = p.Kind, id, p
					ev.Remaining = len(ids) - 1 - i
					ev.Err = td.respondOne(p, id)
					if r.after(ev) {
						return "violation"
					}
				}
				continue
			}
		case "wager":
			gc := td.table().State.GameCount
			if hc.atWager != nil {
				hc.atWager(td, gc, r.wagerN[gc])
			}
			r.wagerN[gc]++
			if hc.advance > 0 {
				td.env.AdvanceTo(td.env.Now() + hc.advance*1e9)
			}
			// the hook may have changed the table (e.g. a leave): re-read
			p = td.pending()
			if p.Kind != "wager" {
				continue
			}
			cp := p.GS.GetPlayer(p.GS.Status.CurrentPlayer)
			a, amt := pol.Line(td, p.GS, cp)
			ev := r.before()
			ev.Kind, ev.ID, ev.Action, ev.Amount, ev.P = "wager", p.Players[0], a, amt, p
			ev.Err = td.act(p.Players[0], a, amt)
			if r.after(ev) {
				return "violation"
			}
			continue
		}
		if td.signalFinish(pol) {
			continue
		}
		if td.env.PendingTimers() > 0 {
			td.env.AdvanceTimer()
			continue
		}
		wedged = true
		break
	}
	td.env.Settle()
	for _, m := range r.mons {
		if r.check(m.End(td)) {
			return "violation"
		}
	}
	if wedged && !done() {
		return "wedged:" + string(td.status())
	}
	if !done() {
		return "incomplete:" + string(td.status())
	}
	return "done"
}

// runHandCfg builds a table per hc inside a controlled world and runs the monitors.
func runHandCfg(prefix []int, hc *handCfg, vcfg vrt.Config, mk func(td *TD) []Monitor) *vrt.Exec {
	return runTable(prefix, vcfg, func(env *vrt.Env) (string, string, string) {
		td, err := newTD(env, hc.tcfg)
		if err != nil {
			return "", "harness-create-table", err.Error()
		}
		reserveSO := func() {
			used := map[int]bool{}
			for _, s := range hc.seatOf {
				used[s] = true
			}
			for s := hc.tcfg.Seats - 1; s >= 0; s-- {
				if !used[s] {
					td.reserve("so", s, 5)
					break
				}
			}
		}
		if hc.sitOutFirst {
			reserveSO()
		}
		if err := td.seatIn(hc.ids, hc.seatOf, hc.stacks); err != nil {
			return "", "harness-seat", err.Error()
		}
		if hc.sitOut && !hc.sitOutFirst {
			used := map[int]bool{}
			for _, s := range hc.seatOf {
				used[s] = true
			}
			for s := 0; s < hc.tcfg.Seats; s++ {
				if !used[s] {
					td.reserve("so", s, 5)
					break
				}
			}
		}
		r := &runner{td: td, hc: hc, wagerN: map[int]int{}, betweenDone: map[int]bool{}, lateDone: map[int]bool{}, retryDone: map[int]bool{}}
		r.mons = mk(td)
		td.start()
		res := r.run()
		outcome := res + " " + handOutcome(td)
		if r.viol != nil {
			return outcome, r.viol.Key, r.viol.Detail + "\nconfig: " + hc.name + "\nops: " + td.opsString()
		}
		return outcome, "", ""
	})
}

// handOutcome: a compact canonical observation of the run (bankrolls, statuses, line taken).
func handOutcome(td *TD) string {
	t := td.table()
	var bs []string
	for _, p := range t.State.PlayerStates {
		bs = append(bs, fmt.Sprintf("%s@%d=%d", p.PlayerID, p.Seat, p.Bankroll))
	}
	sort.Strings(bs)
	var acts []string
	for _, l := range td.log {
		if strings.HasPrefix(l, "ready(") || strings.HasPrefix(l, "blinds(") || strings.HasPrefix(l, "ante(") || strings.HasPrefix(l, "finish(") || strings.HasPrefix(l, "reserve(") || strings.HasPrefix(l, "join(") || strings.HasPrefix(l, "start") {
			continue
		}
		acts = append(acts, l)
	}
	return fmt.Sprintf("%s gc=%d [%s] line=%s", t.State.Status, t.State.GameCount, strings.Join(bs, ","), strings.Join(acts, " "))
}

// ---- shared helpers for monitors -----------------------------------------------------------------

func gsEvent(t *pt.Table) string {
	if t.State.GameState == nil {
		return ""
	}
	return t.State.GameState.Status.CurrentEvent
}

func playerByID(t *pt.Table, id string) (*pt.TablePlayerState, int) {
	for i, p := range t.State.PlayerStates {
		if p.PlayerID == id {
			return p, i
		}
	}
	return nil, -1
}

func gameIdxOf(t *pt.Table, id string) int {
	for gi, pi := range t.State.GamePlayerIndexes {
		if pi >= 0 && pi < len(t.State.PlayerStates) && t.State.PlayerStates[pi].PlayerID == id {
			return gi
		}
	}
	return -1
}

func allowedOf(gs *pokerface.GameState, gi int) []string {
	if gs == nil {
		return nil
	}
	p := gs.GetPlayer(gi)
	if p == nil {
		return nil
	}
	return p.AllowedActions
}

// standard blind structures
func blindStd() pt.TableBlindState {
	return pt.TableBlindState{Level: 1, Ante: 0, Dealer: 0, SB: 1, BB: 2}
}
func blindAnte() pt.TableBlindState {
	return pt.TableBlindState{Level: 1, Ante: 1, Dealer: 0, SB: 1, BB: 2}
}
func blindDealer() pt.TableBlindState {
	return pt.TableBlindState{Level: 1, Ante: 0, Dealer: 2, SB: 0, BB: 0}
}
func blindNoSB() pt.TableBlindState {
	return pt.TableBlindState{Level: 1, Ante: 0, Dealer: 0, SB: 0, BB: 2}
}

func blindName(b pt.TableBlindState) string {
	n := fmt.Sprintf("a%d-d%d-sb%d-bb%d", b.Ante, b.Dealer, b.SB, b.BB)
	switch {
	case b.Level == -1:
		n += "-break"
	case b.Level == 0:
		n += "-unset"
	}
	return n
}
