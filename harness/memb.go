package main

// C03 — seat bookkeeping stays exclusive, consistent and all-or-nothing.
// Explicit-state search over membership operation sequences on the real table engine: every state
// is reached by replaying its shortest operation path on a fresh engine, then one more operation is
// applied and judged.

import (
	"encoding/json"
	"fmt"
	"sort"
	"strings"
	"time"

	pt "github.com/weedbox/pokertable"
	"verif.local/vrt"
)

type membOp struct {
	kind  string // reserve join leave update addon
	id    string
	seat  int
	ids   []string        // leave / update leaves
	joins []pt.JoinPlayer // update joins
	draws []int           // random-seat draws
	label string
}

func (o membOp) String() string {
	d := ""
	if len(o.draws) > 0 {
		d = fmt.Sprintf("#%v", o.draws)
	}
	switch o.kind {
	case "reserve":
		return fmt.Sprintf("reserve(%s,%d)%s", o.id, o.seat, d)
	case "join":
		return "join(" + o.id + ")"
	case "leave":
		return fmt.Sprintf("leave(%v)", o.ids)
	case "update":
		var js []string
		for _, j := range o.joins {
			js = append(js, fmt.Sprintf("%s@%d", j.PlayerID, j.Seat))
		}
		return fmt.Sprintf("update(+[%s],-%v)%s", strings.Join(js, " "), o.ids, d)
	}
	return o.kind
}

type membBase struct {
	name  string
	seats int
	mode  string
	blind pt.TableBlindState
	join  []pt.JoinPlayer // CreateTable join players
	pre   string          // "" | "hand": play one fold-out hand with a,b first
}

type membState struct {
	key   string
	path  []membOp
	depth int
}

// membSnapshot: everything C03 talks about.
type membSnap struct {
	Status  string
	SeatMap []int
	Players []string // id:seat:isIn
	SM      string
	Full    string // table JSON minus serial/time, for the error => unchanged clause
}

func takeMembSnap(td *TD) *membSnap {
	t := td.table()
	s := &membSnap{Status: string(t.State.Status), SeatMap: append([]int{}, t.State.SeatMap...)}
	for _, p := range t.State.PlayerStates {
		s.Players = append(s.Players, fmt.Sprintf("%s:%d:%v:%d", p.PlayerID, p.Seat, p.IsIn, p.Bankroll))
	}
	if sm := pt.VerifSeatManager(td.te); sm != nil {
		seats := sm.Seats()
		var parts []string
		for i := 0; i < t.Meta.TableMaxSeatCount; i++ {
			if sp := seats[i]; sp != nil {
				parts = append(parts, fmt.Sprintf("%d=%s:%v:%v:%v", i, sp.ID, sp.IsIn, sp.HasChips, sp.IsBetweenDealerBB))
			}
		}
		s.SM = strings.Join(parts, ",") + fmt.Sprintf("|D%d/SB%d/BB%d/%v", sm.CurrentDealerSeatID(), sm.CurrentSBSeatID(), sm.CurrentBBSeatID(), sm.IsInitPositions())
	}
	c := deepCopy(t)
	c.UpdateSerial, c.UpdateAt = 0, 0
	data, _ := json.Marshal(c)
	s.Full = string(data)
	return s
}

func (s *membSnap) key() string {
	return s.Status + "|" + fmt.Sprint(s.SeatMap) + "|" + strings.Join(s.Players, ",") + "|" + s.SM
}

// invariant I of C03
func membInvariant(td *TD) *Viol {
	t := td.table()
	n := t.Meta.TableMaxSeatCount
	st := t.State
	if len(st.SeatMap) != n {
		return &Viol{Key: "seat-map-length", Detail: fmt.Sprintf("seat map has %d entries, table has %d seats", len(st.SeatMap), n)}
	}
	if len(st.PlayerStates) > n {
		return &Viol{Key: "more-players-than-seats", Detail: fmt.Sprintf("%d players on %d seats", len(st.PlayerStates), n)}
	}
	ids := map[string]int{}
	seatOf := map[int]string{}
	for i, p := range st.PlayerStates {
		if j, dup := ids[p.PlayerID]; dup {
			return &Viol{Key: "duplicate-player", Detail: fmt.Sprintf("player %s appears at indexes %d and %d", p.PlayerID, j, i)}
		}
		ids[p.PlayerID] = i
		if p.Seat < 0 || p.Seat >= n {
			return &Viol{Key: "seat-out-of-range", Detail: fmt.Sprintf("player %s has seat %d", p.PlayerID, p.Seat)}
		}
		if o, taken := seatOf[p.Seat]; taken {
			return &Viol{Key: "seat-held-twice", Detail: fmt.Sprintf("seat %d is held by %s and %s", p.Seat, o, p.PlayerID)}
		}
		seatOf[p.Seat] = p.PlayerID
		if st.SeatMap[p.Seat] != i {
			return &Viol{Key: "seat-map-not-inverse", Detail: fmt.Sprintf("player %s (index %d) sits at %d but the seat map says %d there", p.PlayerID, i, p.Seat, st.SeatMap[p.Seat])}
		}
	}
	for s, pi := range st.SeatMap {
		if pi == -1 {
			continue
		}
		if pi < 0 || pi >= len(st.PlayerStates) || st.PlayerStates[pi].Seat != s {
			return &Viol{Key: "seat-map-dangling", Detail: fmt.Sprintf("seat map entry %d -> %d does not denote a player sitting there", s, pi)}
		}
	}
	if sm := pt.VerifSeatManager(td.te); sm != nil {
		seats := sm.Seats()
		seen := map[string]int{}
		for s := 0; s < n; s++ {
			sp := seats[s]
			tid := seatOf[s]
			if sp == nil {
				if tid != "" {
					return &Viol{Key: "seat-manager-disagrees", Detail: fmt.Sprintf("seat %d: table says %s, seat manager says empty", s, tid)}
				}
				continue
			}
			if o, dup := seen[sp.ID]; dup {
				return &Viol{Key: "seat-manager-player-twice", Detail: fmt.Sprintf("seat manager holds %s at seats %d and %d", sp.ID, o, s)}
			}
			seen[sp.ID] = s
			if tid != sp.ID {
				return &Viol{Key: "seat-manager-disagrees", Detail: fmt.Sprintf("seat %d: table says %q, seat manager says %q", s, tid, sp.ID)}
			}
			if p := st.PlayerStates[ids[tid]]; p.IsIn != sp.IsIn {
				return &Viol{Key: "seated-in-flag-disagrees", Detail: fmt.Sprintf("%s: table seated-in=%v, seat manager seated-in=%v", tid, p.IsIn, sp.IsIn)}
			}
		}
	}
	return nil
}

func (o membOp) apply(td *TD) error {
	switch o.kind {
	case "reserve":
		return td.te.PlayerReserve(pt.JoinPlayer{PlayerID: o.id, RedeemChips: 5, Seat: o.seat})
	case "join":
		return td.te.PlayerJoin(o.id)
	case "leave":
		return td.te.PlayersLeave(o.ids)
	case "update":
		_, err := td.te.UpdateTablePlayers(o.joins, o.ids)
		return err
	}
	panic("op")
}

func membOps(n int) []membOp {
	pool := []string{"a", "b", "c", "d", "e"}
	if n <= 2 {
		pool = pool[:3]
	} else if n == 3 {
		pool = pool[:4]
	}
	var ops []membOp
	for _, id := range pool {
		for s := -1; s <= n; s++ { // seat n does not exist
			ops = append(ops, membOp{kind: "reserve", id: id, seat: s})
		}
		ops = append(ops, membOp{kind: "join", id: id})
		ops = append(ops, membOp{kind: "leave", ids: []string{id}})
	}
	ops = append(ops, membOp{kind: "join", id: "ghost"}, membOp{kind: "leave", ids: []string{"ghost"}})
	ops = append(ops,
		membOp{kind: "leave", ids: []string{"a", "b"}},
		membOp{kind: "leave", ids: []string{"a", "ghost"}},
		membOp{kind: "leave", ids: []string{"ghost", "a"}},
		membOp{kind: "leave", ids: []string{"a", "a"}},
	)
	jp := func(id string, seat int) pt.JoinPlayer {
		return pt.JoinPlayer{PlayerID: id, RedeemChips: 5, Seat: seat}
	}
	last := n - 1
	ops = append(ops,
		membOp{kind: "update", joins: []pt.JoinPlayer{jp("c", 0)}},
		membOp{kind: "update", joins: []pt.JoinPlayer{jp("c", -1)}},
		membOp{kind: "update", joins: []pt.JoinPlayer{jp("a", -1)}},                             // duplicate id, random seat
		membOp{kind: "update", joins: []pt.JoinPlayer{jp("a", last)}},                           // duplicate id, fixed seat
		membOp{kind: "update", joins: []pt.JoinPlayer{jp("c", -1), jp("d", -1)}},                // two random seats
		membOp{kind: "update", joins: []pt.JoinPlayer{jp("c", last), jp("d", last)}},            // same seat twice
		membOp{kind: "update", joins: []pt.JoinPlayer{jp("c", last), jp("d", -1), jp("e", -1)}}, // fixed + random that may not fit
		membOp{kind: "update", joins: []pt.JoinPlayer{jp("c", -1)}, ids: []string{"a"}},
		membOp{kind: "update", joins: []pt.JoinPlayer{jp("c", 0)}, ids: []string{"a"}},
		membOp{kind: "update", joins: []pt.JoinPlayer{jp("c", -1)}, ids: []string{"ghost"}},
		membOp{kind: "update", ids: []string{"ghost"}},
		membOp{kind: "update", ids: []string{"a", "b"}},
		membOp{kind: "update", joins: []pt.JoinPlayer{jp("a", -1), jp("b", -1), jp("c", -1), jp("d", -1), jp("e", -1)}}, // more joins than seats on small tables
		membOp{kind: "update", joins: []pt.JoinPlayer{jp("c", 0), jp("c", last)}},                                       // same id twice in one batch
		membOp{kind: "update", joins: []pt.JoinPlayer{jp("c", -1)}, ids: []string{"a", "a"}},                            // leaver listed twice
		membOp{kind: "update", joins: []pt.JoinPlayer{jp("c", -1), jp("d", -1)}, ids: []string{"a", "a"}},               // ... and one joiner too many on a full table
		membOp{kind: "update", joins: []pt.JoinPlayer{jp("c", -1), jp("d", -1), jp("e", -1)}, ids: []string{"a", "b", "a"}},
	)
	return ops
}

type membSearch struct {
	base     membBase
	maxDepth int
	name     string
	states   map[string]int
	list     []membState
	viol     map[string]*Violation
	trans    int
}

// runPath replays path on a fresh table and applies op; judge decides.
func (m *membSearch) expand(from *membState, op membOp) (newKey string, ndraws []int, v *Viol, detail string) {
	var key string
	var viol *Viol
	var errStr string
	res := vrt.Run(vrt.Config{Prefix: nil, DataExplore: false, ShuffleDepth: 2, MaxSteps: 500000}, func(env *vrt.Env) {
		tc := defaultCfg(m.base.seats)
		tc.Mode = m.base.mode
		tc.Blind = m.base.blind
		tc.Join = m.base.join
		td, err := newTD(env, tc)
		if err != nil {
			viol = &Viol{Key: "harness-create", Detail: err.Error()}
			return
		}
		if m.base.pre == "hand" {
			td.seatIn([]string{"a", "b"}, []int{0, 1}, []int64{5, 5})
			td.start()
			pol := &HandPolicy{Line: lineFoldOut, Finish: "none"}
			if !td.playHand(pol, 1) {
				viol = &Viol{Key: "harness-pre-hand", Detail: "could not play the preparatory hand"}
				return
			}
		}
		// replay the path: its draws are replayed through ReplayRand
		for _, o := range from.path {
			env.ReplayRand(o.draws)
			o.apply(td)
			env.StopReplayRand()
		}
		env.Settle()
		if v := membInvariant(td); v != nil {
			// already reported when this state was first reached
			key = ""
			return
		}
		before := takeMembSnap(td)
		// the operation itself: draws are explored
		env.SetDataExplore(true)
		env.RecordRand()
		err = op.apply(td)
		env.SetDataExplore(false)
		env.Settle()
		if err != nil {
			errStr = err.Error()
		}
		after := takeMembSnap(td)
		if v := membInvariant(td); v != nil {
			viol = v
		} else if err != nil && (before.Full != after.Full || before.SM != after.SM) {
			viol = &Viol{Key: "error-changed-state@" + op.kind, Detail: fmt.Sprintf("%s returned %v but changed the bookkeeping\nbefore: players %v seat map %v seat manager %s\nafter:  players %v seat map %v seat manager %s", op, err, before.Players, before.SeatMap, before.SM, after.Players, after.SeatMap, after.SM)}
		} else if err != nil && op.kind == "reserve" && op.seat >= 0 && op.seat < m.base.seats {
			// a free seat on a table that is not full must be obtainable by a new player
			t := td.table()
			if _, idx := playerByID(t, op.id); idx < 0 && t.State.SeatMap[op.seat] == -1 && len(t.State.PlayerStates) < t.Meta.TableMaxSeatCount {
				viol = &Viol{Key: "free-seat-refused", Detail: fmt.Sprintf("%s returned %v although the seat is free and the table is not full", op, err)}
			}
		}
		key = after.key()
	})
	m.trans++
	for _, c := range res.Trace {
		if c.Kind == 'd' {
			ndraws = append(ndraws, c.N)
		}
	}
	if res.DriverPanic != "" {
		return "", nil, &Viol{Key: "panic@" + op.kind, Detail: firstLine(res.DriverPanic)}, ""
	}
	if len(res.Panics) > 0 {
		return "", nil, &Viol{Key: "panic@" + op.kind, Detail: res.Panics[0]}, ""
	}
	_ = errStr
	return key, ndraws, viol, ""
}

func (m *membSearch) run(st *SuiteStats) {
	m.states = map[string]int{}
	m.viol = map[string]*Violation{}
	root := membState{key: "ROOT"}
	m.list = append(m.list, root)
	m.states["ROOT"] = 0
	ops := membOps(m.base.seats)
	capped := false
	fullDepth := -1
	for head := 0; head < len(m.list); head++ {
		cur := m.list[head]
		if cur.depth >= m.maxDepth {
			continue
		}
		if time.Now().After(deadline) {
			capped = true
			fullDepth = cur.depth - 1
			break
		}
		queue := append([]membOp{}, ops...)
		for qi := 0; qi < len(queue); qi++ {
			op := queue[qi]
			key, nd, v, _ := m.expandWithDraws(&cur, op)
			// enumerate the other draws of this operation
			if len(op.draws) == 0 && len(nd) > 0 {
				var rec func(prefix []int, i int)
				rec = func(prefix []int, i int) {
					if i == len(nd) {
						nonzero := false
						for _, x := range prefix {
							if x != 0 {
								nonzero = true
							}
						}
						if nonzero {
							o2 := op
							o2.draws = append([]int{}, prefix...)
							queue = append(queue, o2)
						}
						return
					}
					for d := 0; d < nd[i]; d++ {
						rec(append(prefix, d), i+1)
					}
				}
				rec(nil, 0)
			}
			if v != nil {
				if _, ok := m.viol[v.Key]; !ok {
					path := append(append([]membOp{}, cur.path...), op)
					var ps []string
					for _, o := range path {
						ps = append(ps, o.String())
					}
					clause, k := splitKey(v.Key)
					m.viol[v.Key] = &Violation{Suite: m.name, Clause: clause, Key: k, Detail: v.Detail + "\nbase: " + m.base.name + "\nhistory: " + strings.Join(ps, " "), Ops: strings.Join(ps, " ")}
				}
				continue
			}
			if key == "" {
				continue
			}
			if _, seen := m.states[key]; !seen {
				m.states[key] = len(m.list)
				o2 := op
				if len(o2.draws) == 0 && len(nd) > 0 {
					o2.draws = make([]int, len(nd))
				}
				m.list = append(m.list, membState{key: key, path: append(append([]membOp{}, cur.path...), o2), depth: cur.depth + 1})
			}
		}
	}
	st.States = len(m.list)
	st.Transitions = m.trans
	st.Execs = m.trans
	st.Capped = capped
	if capped {
		st.Notes = append(st.Notes, fmt.Sprintf("%s: time cap: every history of depth <= %d fully expanded, %d states", m.name, fullDepth, len(m.list)))
	} else {
		st.Notes = append(st.Notes, fmt.Sprintf("%s: every history of depth <= %d expanded, %d states, %d transitions", m.name, m.maxDepth, len(m.list), m.trans))
	}
	st.Outcomes = map[string]int{}
	for _, s := range m.list {
		st.Outcomes[s.key]++
	}
	if len(m.list) > 2 {
		for _, i := range []int{len(m.list) - 1, len(m.list) / 2} {
			var ps []string
			for _, o := range m.list[i].path {
				ps = append(ps, o.String())
			}
			st.Samples = append(st.Samples, strings.Join(ps, " "))
		}
	}
	keys := make([]string, 0, len(m.viol))
	for k := range m.viol {
		keys = append(keys, k)
	}
	sort.Strings(keys)
	for _, k := range keys {
		st.Violations = append(st.Violations, *m.viol[k])
	}
}

// expandWithDraws: op.draws (if any) select the random draws of the operation.
func (m *membSearch) expandWithDraws(from *membState, op membOp) (string, []int, *Viol, string) {
	if len(op.draws) == 0 {
		return m.expand(from, op)
	}
	// force the draws through ReplayRand by making them part of the path replay
	f2 := *from
	return m.expandForced(&f2, op)
}

func (m *membSearch) expandForced(from *membState, op membOp) (string, []int, *Viol, string) {
	// identical to expand but the operation's draws are replayed
	saved := op.draws
	var key string
	var viol *Viol
	res := vrt.Run(vrt.Config{ShuffleDepth: 2, MaxSteps: 500000}, func(env *vrt.Env) {
		tc := defaultCfg(m.base.seats)
		tc.Mode = m.base.mode
		tc.Blind = m.base.blind
		tc.Join = m.base.join
		td, err := newTD(env, tc)
		if err != nil {
			return
		}
		if m.base.pre == "hand" {
			td.seatIn([]string{"a", "b"}, []int{0, 1}, []int64{5, 5})
			td.start()
			pol := &HandPolicy{Line: lineFoldOut, Finish: "none"}
			if !td.playHand(pol, 1) {
				return
			}
		}
		for _, o := range from.path {
			env.ReplayRand(o.draws)
			o.apply(td)
			env.StopReplayRand()
		}
		env.Settle()
		if membInvariant(td) != nil {
			return
		}
		before := takeMembSnap(td)
		env.ReplayRand(saved)
		err = op.apply(td)
		env.StopReplayRand()
		env.Settle()
		after := takeMembSnap(td)
		if v := membInvariant(td); v != nil {
			viol = v
		} else if err != nil && (before.Full != after.Full || before.SM != after.SM) {
			viol = &Viol{Key: "error-changed-state@" + op.kind, Detail: fmt.Sprintf("%s returned %v but changed the bookkeeping\nbefore: players %v seat map %v seat manager %s\nafter:  players %v seat map %v seat manager %s", op, err, before.Players, before.SeatMap, before.SM, after.Players, after.SeatMap, after.SM)}
		}
		key = after.key()
	})
	m.trans++
	if res.DriverPanic != "" {
		return "", nil, &Viol{Key: "panic@" + op.kind, Detail: firstLine(res.DriverPanic)}, ""
	}
	return key, nil, viol, ""
}

func membSuites(tier string) []*Suite {
	var ss []*Suite
	depthSmall, depthBig, depthHand := 4, 2, 2
	if tier == "thorough" {
		depthSmall, depthBig, depthHand = 6, 3, 3
	}
	jp := func(id string, seat int) pt.JoinPlayer {
		return pt.JoinPlayer{PlayerID: id, RedeemChips: 5, Seat: seat}
	}
	add := func(b membBase, depth int) {
		b2 := b
		name := fmt.Sprintf("memb/%s/seats%d/depth%d", b.name, b.seats, depth)
		ss = append(ss, &Suite{Name: name, Weight: depth * depth * b.seats, Direct: func(st *SuiteStats) {
			m := &membSearch{base: b2, maxDepth: depth, name: name}
			m.run(st)
		}})
	}
	for _, n := range []int{2, 3, 4} {
		add(membBase{name: "fresh-ct", seats: n, mode: pt.CompetitionMode_CT, blind: blindStd()}, depthSmall)
		add(membBase{name: "mtt-created-with-players", seats: n, mode: pt.CompetitionMode_MTT, blind: blindStd(), join: []pt.JoinPlayer{jp("a", 0), jp("b", -1)}}, depthSmall-1)
		add(membBase{name: "created-on-break", seats: n, mode: pt.CompetitionMode_CT, blind: pt.TableBlindState{Level: -1, SB: 1, BB: 2}}, depthSmall-1)
		add(membBase{name: "standby-after-hand", seats: n, mode: pt.CompetitionMode_CT, blind: blindStd(), pre: "hand"}, depthHand)
	}
	for _, n := range []int{9, 10} {
		add(membBase{name: "fresh-ct", seats: n, mode: pt.CompetitionMode_CT, blind: blindStd()}, depthBig)
	}
	ss = append(ss, raceSuites("memb/", tier, true, func(h *hist) []Monitor { return []Monitor{&monInvariant{}} })...)
	return append(ss, c03SchedSuites(tier)...)
}

func init() {
	register(&Check{
		ID: "C03", Level: "model_checking",
		Rule:        "explicit-state search over membership operation sequences (reserve fixed/random seat incl. re-buy, join, leave with every listed subset incl. unknown / mixed / repeated ids, batch update with seat-taken, duplicate id, too many joins, unknown leaver, fixed+random mixes; every random seat draw) on the real table engine from four base states (fresh CT table, MTT table created with players, table created on a break, standby after one hand): each state is reached by replaying its shortest path on a fresh engine, one more operation is applied and judged by the bookkeeping invariant, error => nothing changed, and a free seat is obtainable; states are merged on (status, seat map, players, seat manager); plus schedule exploration of one membership call (PlayerJoin, reserve fixed / random seat, leave, batch update) racing the opening of a hand (invariant; a call that returned nil has taken effect, one that failed has not) and of a re-buy / add-on / arrival / departure of a bystander racing the settlement of a hand (invariant at every quiescent point afterwards)",
		Assumptions: []string{"id pool of 3-5 players plus an unknown id; 2-4 seats to the reported depth, 9-10 seats to a smaller depth", "random seats: the first two shuffle positions are enumerated (the operations draw at most two... five seats)"},
		Suites:      membSuites,
	})
}
