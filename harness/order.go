package main

// Delivery-order suites for C18 (bots) and C19 (player runner): "stays silent when its view is stale".
//
// The node suites show every snapshot to a fresh runner.  Here the ordered list of snapshots of real two-hand
// executions (paths) is delivered to ONE long-lived runner per player, first in order (the reference: which
// deliveries make the runner act, computed on the implementation itself), then in every order in which a single
// snapshot is late (it arrives after the 1..3 snapshots that followed it, those in between delivered or lost) or is
// delivered twice.  A late or repeated
// snapshot is older than something the runner has already seen, so it must not draw any action, and every other
// delivery must behave as in the reference.
//
// Hand-state times are normalised to a strictly increasing sequence (distinct hand states in order of
// appearance), so that "older" is well defined whatever the wall clock did while the path was recorded.

import (
	"encoding/json"
	"fmt"
	"sort"
	"time"

	pt "github.com/weedbox/pokertable"
	"github.com/weedbox/pokertable/actor"
	"verif.local/vrt"
)

type pathCollector struct {
	baseMon
	out *[][]*pt.Table
}

func (c *pathCollector) End(td *TD) *Viol {
	var p []*pt.Table
	for _, s := range td.snaps {
		p = append(p, deepCopy(s.T))
	}
	*c.out = append(*c.out, p)
	return nil
}

func orderPaths(tier string) ([][]*pt.Table, string) {
	var paths [][]*pt.Table
	type lay struct {
		ids    []string
		seats  []int
		stacks []int64
	}
	lays := []lay{
		{[]string{"a", "b"}, []int{0, 2}, []int64{9, 9}},
		{[]string{"a", "b", "c"}, []int{0, 1, 3}, []int64{9, 7, 9}},
	}
	lines := []Line{lineCheckDown, lineFoldOut}
	if tier == "thorough" {
		lines = append(lines, lineAllIn)
	}
	for li, l := range lays {
		for ni, ln := range lines {
			tc := defaultCfg(5)
			tc.Deck = "asc"
			hc := &handCfg{name: fmt.Sprintf("order/lay%d/line%d", li, ni), tcfg: tc, ids: l.ids, seatOf: l.seats, stacks: l.stacks, hands: 2, line: ln, pol: HandPolicy{Finish: "all"}}
			x := runHandCfg(nil, hc, vrt.Config{}, func(td *TD) []Monitor { return []Monitor{&pathCollector{out: &paths}} })
			if x.Fatal != "" {
				return nil, x.Fatal
			}
		}
	}
	// normalise hand-state times: distinct hand states get increasing times in order of first appearance
	for _, p := range paths {
		seen := map[string]int64{}
		next := int64(1_700_000_000_000)
		for _, t := range p {
			gs := t.State.GameState
			if gs == nil {
				continue
			}
			c := *gs
			c.UpdatedAt = 0
			js, _ := json.Marshal(&c)
			k := string(js)
			if _, ok := seen[k]; !ok {
				next += 10
				seen[k] = next
			}
			gs.UpdatedAt = seen[k]
		}
	}
	return paths, ""
}

// deliver shows the snapshots of `order` (indexes into path) to one fresh runner of player id and returns, per
// delivery, the calls it drew (count and kinds). Timers are run after every delivery (action time 1 s).
func orderDeliver(kind string, id string, path []*pt.Table, order []int, st *SuiteStats) []string {
	out := make([]string, len(order))
	vrt.Run(vrt.Config{MaxSteps: 400000}, func(env *vrt.Env) {
		rec := &recEngine{now: env.Now}
		var r actor.Runner
		switch kind {
		case "bot":
			r = actor.NewBotRunner(id)
		case "player":
			r = actor.NewPlayerRunner(id)
		}
		a := newActorOn(rec, deepCopy(path[0]), r)
		for k, i := range order {
			n0 := len(rec.calls)
			view := deepCopy(path[i])
			view.Meta.ActionTime = 1
			a.GetTable().UpdateTableState(view)
			env.Settle()
			until := env.Now() + 2e9
			for j := 0; j < 6 && env.PendingTimers() > 0 && env.NextTimerDue() <= until; j++ {
				env.AdvanceTimer()
				env.Settle()
			}
			env.AdvanceTo(until)
			var kinds []string
			for _, c := range rec.calls[n0:] {
				kinds = append(kinds, c.Kind)
			}
			out[k] = fmt.Sprint(kinds)
			st.Transitions++
		}
		st.Execs++
	})
	return out
}

// newerSeen: among the snapshots delivered before position k of order, is there a hand state newer than path[i]'s?
// (staleness is a notion of hand-state time: a snapshot without a hand state carries none)
func newerSeen(path []*pt.Table, order []int, k int, i int) bool {
	gi := path[i].State.GameState
	if gi == nil {
		return false
	}
	for _, idx := range order[:k] {
		if g := path[idx].State.GameState; g != nil && g.UpdatedAt >= gi.UpdatedAt {
			return true
		}
	}
	return false
}

func sameHand(a, b *pt.Table) bool {
	ga, gb := a.State.GameState, b.State.GameState
	if ga == nil || gb == nil {
		return a.State.GameCount == b.State.GameCount
	}
	return ga.GameID == gb.GameID
}

// orderSuite: kind "bot" (C18) or "player" (C19). crossHand: whether a snapshot may be late across a hand boundary.
func orderSuite(name, kind, tier string, crossHand bool) *Suite {
	return &Suite{Name: name, Weight: 5, Direct: func(st *SuiteStats) {
		paths, fatal := orderPaths(tier)
		if fatal != "" {
			st.Fatal = fatal
			return
		}
		viol := map[string]*Violation{}
		st.Outcomes = map[string]int{}
		maxLate, maxLost := 3, 12
		report := func(key, detail string) {
			if _, ok := viol[key]; !ok && !hitKnown(key, detail) {
				clause, k := splitKey(key)
				viol[key] = &Violation{Suite: name, Clause: clause, Key: k, Detail: detail}
			}
		}
		capped := false
		for pi, path := range paths {
			ids := map[string]bool{}
			for _, t := range path {
				for _, p := range t.State.PlayerStates {
					ids[p.PlayerID] = true
				}
			}
			var idl []string
			for id := range ids {
				idl = append(idl, id)
			}
			sort.Strings(idl)
			n := len(path)
			inorder := make([]int, n)
			for i := range inorder {
				inorder[i] = i
			}
			for _, id := range idl {
				ref := orderDeliver(kind, id, path, inorder, st)
				acted := 0
				for _, r := range ref {
					if r != "[]" {
						acted++
					}
				}
				st.Outcomes[fmt.Sprintf("path%d/%s/in-order-actions=%d", pi, id, acted)]++
				for i := 0; i < n && !capped; i++ {
					if time.Now().After(deadline) {
						capped = true
						break
					}
					for d := 1; d <= maxLost && i+d < n; d++ {
						j := i + d
						if !crossHand && !sameHand(path[i], path[j]) {
							continue
						}
						if d > maxLate {
							// far apart: only the variant in which everything in between is lost (one delivery order)
							var order []int
							for k := 0; k < n; k++ {
								if k >= i && k < j {
									continue
								}
								order = append(order, k)
								if k == j {
									order = append(order, i)
								}
							}
							got := orderDeliver(kind, id, path, order, st)
							for k, idx := range order {
								if idx != i || !newerSeen(path, order, k, i) {
									continue
								}
								if got[k] != "[]" {
									report("acts-on-stale-view@late-snapshot", fmt.Sprintf("%s runner of %s, path %d (%d snapshots): snapshots #%d..#%d lost, snapshot #%d (%s) delivered after snapshot #%d (%s); it drew %s although a newer hand state had been seen", kind, id, pi, n, i+1, j-1, i, describeNode(path[i]), j, describeNode(path[j]), got[k]))
								}
							}
							continue
						}
						// (1) snapshot i is late: it arrives after snapshot j
						var order []int
						for k := 0; k < n; k++ {
							if k == i {
								continue
							}
							order = append(order, k)
							if k == j {
								order = append(order, i)
							}
						}
						got := orderDeliver(kind, id, path, order, st)
						for k, idx := range order {
							want := ref[idx]
							late := idx == i
							if late && !newerSeen(path, order, k, i) {
								continue // nothing newer (by hand-state time) was seen before it: not stale, nothing is promised
							}
							if late {
								want = "[]"
							}
							if got[k] != want {
								key := "acts-on-stale-view@late-snapshot"
								if !late {
									key = "delivery-order-changes-answer"
								}
								report(key, fmt.Sprintf("%s runner of %s, path %d (%d snapshots): snapshot #%d (%s) delivered after snapshot #%d (%s); delivery of snapshot #%d drew %s, expected %s (in-order reference %s)", kind, id, pi, n, i, describeNode(path[i]), j, describeNode(path[j]), idx, got[k], want, ref[idx]))
							}
						}
						// (1b) the same with the snapshots between i and j lost in transit
						if d >= 2 {
							order = order[:0]
							for k := 0; k < n; k++ {
								if k >= i && k < j {
									continue
								}
								order = append(order, k)
								if k == j {
									order = append(order, i)
								}
							}
							got = orderDeliver(kind, id, path, order, st)
							for k, idx := range order {
								want := ref[idx]
								if idx == i {
									if !newerSeen(path, order, k, i) {
										continue
									}
									want = "[]"
								}
								if got[k] != want {
									key := "acts-on-stale-view@late-snapshot"
									if idx != i {
										key = "delivery-order-changes-answer"
									}
									report(key, fmt.Sprintf("%s runner of %s, path %d (%d snapshots): snapshots #%d..#%d lost, snapshot #%d (%s) delivered after snapshot #%d (%s); delivery of snapshot #%d drew %s, expected %s", kind, id, pi, n, i+1, j-1, i, describeNode(path[i]), j, describeNode(path[j]), idx, got[k], want))
								}
							}
						}
						// (2) snapshot i is delivered again after snapshot j
						order = order[:0]
						for k := 0; k < n; k++ {
							order = append(order, k)
							if k == j {
								order = append(order, i)
							}
						}
						got = orderDeliver(kind, id, path, order, st)
						seenI := false
						for k, idx := range order {
							want := ref[idx]
							if idx == i {
								if seenI {
									if path[i].State.GameState == nil {
										continue
									}
									want = "[]"
								}
								seenI = true
							}
							if got[k] != want {
								report("acts-on-stale-view@repeated-snapshot", fmt.Sprintf("%s runner of %s, path %d: snapshot #%d (%s) delivered again after snapshot #%d; delivery drew %s, expected %s", kind, id, pi, i, describeNode(path[i]), j, got[k], want))
							}
						}
					}
				}
			}
		}
		st.Capped = capped
		st.States = len(st.Outcomes)
		st.Notes = append(st.Notes, fmt.Sprintf("%s: %d paths (two-hand executions), one snapshot late by 1..%d deliveries or repeated, cross-hand=%v; %d runner lives, %d deliveries", name, len(paths), maxLate, crossHand, st.Execs, st.Transitions))
		keys := make([]string, 0, len(viol))
		for k := range viol {
			keys = append(keys, k)
		}
		sort.Strings(keys)
		for _, k := range keys {
			st.Violations = append(st.Violations, *viol[k])
		}
	}}
}


// thinkingSuite (C18): a humanized bot is shown a request of a real path and, while its think-time timer may be
// pending, an older snapshot of the same path (late by 1..4 deliveries; with or without a hand state; of this or
// the previous hand); then the timers run. A snapshot older than what the bot has seen is stale: for every
// sequence of the bot's random draws (thinking time, action roulette, amounts) the calls must be exactly those
// of the same run without the late snapshot.
func thinkingSuite(name, tier string) *Suite {
	return &Suite{Name: name, Weight: 5, Direct: func(st *SuiteStats) {
		paths, fatal := orderPaths(tier)
		if fatal != "" {
			st.Fatal = fatal
			return
		}
		st.Outcomes = map[string]int{}
		viol := map[string]*Violation{}
		capped := false
		for pi, path := range paths {
			ids := map[string]bool{}
			for _, t := range path {
				for _, p := range t.State.PlayerStates {
					ids[p.PlayerID] = true
				}
			}
			var idl []string
			for id := range ids {
				idl = append(idl, id)
			}
			sort.Strings(idl)
			for _, id := range idl {
				for j := 1; j < len(path) && !capped; j++ {
					if time.Now().After(deadline) {
						capped = true
						break
					}
					tj := path[j]
					if tj.State.GameState == nil || tj.State.Status != pt.TableStateStatus_TableGamePlaying {
						continue
					}
					if _, allowed := askedActions(tj, id); len(allowed) == 0 {
						continue
					}
					for d := 1; d <= 4 && j-d >= 0; d++ {
						i := j - d
						if g := path[i].State.GameState; g != nil && g.UpdatedAt >= tj.State.GameState.UpdatedAt {
							continue // not older
						}
						run := func(env *vrt.Env, late bool) string {
							rec := &recEngine{now: env.Now}
							bot := actor.NewBotRunner(id)
							bot.Humanized(true)
							first := deepCopy(path[0])
							first.Meta.ActionTime = 3
							a := newActorOn(rec, first, bot)
							view := deepCopy(tj)
							view.Meta.ActionTime = 3
							a.GetTable().UpdateTableState(view)
							env.Settle()
							if late {
								old := deepCopy(path[i])
								old.Meta.ActionTime = 3
								a.GetTable().UpdateTableState(old)
								env.Settle()
							}
							for k := 0; k < 6 && env.PendingTimers() > 0; k++ {
								env.AdvanceTimer()
								env.Settle()
							}
							st.Transitions++
							var cs []string
							for _, c := range rec.calls {
								cs = append(cs, fmt.Sprintf("%s(%s,%d)", c.Kind, c.ID, c.Chips))
							}
							return fmt.Sprint(cs)
						}
						vrt.Run(vrt.Config{MaxSteps: 200000}, func(env *vrt.Env) {
							st.Execs += env.ForAllRand(func(draws []int) {
								with := run(env, true)
								env.RewindRand()
								without := run(env, false)
								st.Outcomes[fmt.Sprintf("late-changes-nothing=%v", with == without)]++
								if with != without {
									key := "acts-on-stale-view@late-snapshot-while-thinking"
									detail := fmt.Sprintf("humanized bot %s, path %d: shown snapshot #%d (%s), then - before its think-time timer was run - the older snapshot #%d (%s); with draws %v it submitted %s, without the late snapshot %s", id, pi, j, describeNode(tj), i, describeNode(path[i]), draws, with, without)
									if _, ok := viol[key]; !ok && !hitKnown(key, detail) {
										clause, k := splitKey(key)
										viol[key] = &Violation{Suite: name, Clause: clause, Key: k, Detail: detail}
									}
								}
							})
						})
					}
				}
			}
		}
		st.Capped = capped
		st.States = len(st.Outcomes)
		st.Notes = append(st.Notes, fmt.Sprintf("%s: %d paths, every request x older snapshot late by 1..4 x every draw sequence; %d runs", name, len(paths), st.Execs))
		for _, v := range viol {
			st.Violations = append(st.Violations, *v)
		}
	}}
}
