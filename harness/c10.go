package main

// C10 — only the player whose turn it is can act; refused actions leave no trace.

import (
	"fmt"
	"strings"

	pt "github.com/weedbox/pokertable"
	"verif.local/vrt"
)

var probedNodes = map[string]bool{}

type monC10 struct {
	baseMon
	probes       int
	readyReqs    int
	reqStartActs int
	lastReq      string
}

var allKinds = []string{"fold", "check", "call", "bet", "raise", "allin", "pass", "ready", "pay"}

func isWagerKind(k string) bool { return k != "ready" && k != "pay" }

// expectAccept: reference acceptance from the snapshot before the call.
func (m *monC10) expectAccept(td *TD, t *pt.Table, p Pending, id, kind string) (accept bool, dup bool) {
	if t.State.Status != pt.TableStateStatus_TableGamePlaying || t.State.GameState == nil {
		return false, false
	}
	gi := gameIdxOf(t, id)
	if gi < 0 {
		return false, false
	}
	gs := t.State.GameState
	if isWagerKind(kind) {
		if gs.Status.CurrentEvent != "RoundStarted" || gs.Status.CurrentPlayer != gi {
			return false, false
		}
		return hasStr(allowedOf(gs, gi), kind), false
	}
	if !hasStr(allowedOf(gs, gi), kind) {
		return false, false
	}
	// ready / pay: asked and not yet heard from
	if td.responded[id] {
		return false, true
	}
	if (kind == "ready" && p.Kind == "ready") || (kind == "pay" && (p.Kind == "ante" || p.Kind == "blinds")) {
		return true, false
	}
	return false, false
}

func whoClass(t *pt.Table, id string) string {
	if id == "ghost" {
		return "stranger"
	}
	pl, _ := playerByID(t, id)
	if pl == nil {
		return "stranger"
	}
	gi := gameIdxOf(t, id)
	if gi < 0 {
		return "not-dealt-in"
	}
	if t.State.GameState != nil && t.State.GameState.Status.CurrentPlayer == gi && t.State.GameState.Status.CurrentEvent == "RoundStarted" {
		return "player-to-act"
	}
	return "other-participant"
}

func nodeKey(t *pt.Table, responded map[string]bool) string {
	st := t.State
	var sb strings.Builder
	fmt.Fprintf(&sb, "%s|%d|", st.Status, len(st.PlayerStates))
	for _, p := range st.PlayerStates {
		fmt.Fprintf(&sb, "%s:%d:%d:%v:%v,", p.PlayerID, p.Seat, p.Bankroll, p.IsIn, p.IsParticipated)
	}
	if gs := st.GameState; gs != nil {
		fmt.Fprintf(&sb, "|%s/%s/cp%d/w%d/r%d/", gs.Status.Round, gs.Status.CurrentEvent, gs.Status.CurrentPlayer, gs.Status.CurrentWager, gs.Status.PreviousRaiseSize)
		for _, p := range gs.Players {
			fmt.Fprintf(&sb, "%d:%d:%d:%d:%v:%v:%v;", p.Idx, p.StackSize, p.Wager, p.Pot, p.Fold, p.Acted, p.AllowedActions)
		}
	}
	for id, r := range responded {
		if r {
			sb.WriteString("R" + id)
		}
	}
	return sb.String()
}

func (m *monC10) Quiescent(td *TD, p Pending) *Viol {
	t := td.table()
	if p.Kind != "" && td.reqKey != m.lastReq {
		m.lastReq = td.reqKey
		m.reqStartActs = len(td.actions)
	}
	key := nodeKey(t, td.responded)
	if probedNodes[key] {
		return nil
	}
	probedNodes[key] = true
	var ids []string
	for _, pl := range t.State.PlayerStates {
		ids = append(ids, pl.PlayerID)
	}
	ids = append(ids, "ghost", "")
	for _, id := range ids {
		for _, kind := range allKinds {
			snap, _ := cloneTable(t)
			acc, dup := m.expectAccept(td, snap, p, id, kind)
			if acc {
				continue // a tree edge: taken by the line, checked in After
			}
			before, _ := t.GetJSON()
			ncalls := td.be.applied
			nacts := len(td.actions)
			var amt int64
			if kind == "bet" || kind == "raise" || kind == "pay" {
				amt = 2
			}
			wasResponded := td.responded[id]
			err := td.act(id, kind, amt)
			td.log = td.log[:len(td.log)-1] // probes are not part of the history
			m.probes++
			td.env.Settle()
			after, _ := td.table().GetJSON()
			cls := whoClass(snap, id)
			clause := "refusal"
			if dup {
				clause = "dup-response"
			}
			site := fmt.Sprintf("%s/%s/%s", cls, kind, statusClass(snap))
			if err == nil {
				td.responded[id] = wasResponded
				return &Viol{Key: clause + "-accepted@" + site, Detail: fmt.Sprintf("%s by %s (%s) while %s returned nil; reference says it must be refused\nstatus=%s event=%s allowed=%v", kind, id, cls, describePending(p), snap.State.Status, gsEvent(snap), allowedOf(snap.State.GameState, gameIdxOf(snap, id)))}
			}
			if before != after || td.be.applied != ncalls || len(td.actions) != nacts {
				return &Viol{Key: clause + "-left-trace@" + site, Detail: fmt.Sprintf("%s by %s (%s) was refused (%v) but the table / hand changed\nbefore: %s\nafter:  %s", kind, id, cls, err, before, after)}
			}
		}
	}
	return nil
}

// End: the table has left the hand (standby / pausing): every action must be refused there as well.
func (m *monC10) End(td *TD) *Viol { return m.Quiescent(td, td.pending()) }

func statusClass(t *pt.Table) string {
	if t.State.Status != pt.TableStateStatus_TableGamePlaying {
		return string(t.State.Status)
	}
	return "playing:" + gsEvent(t)
}

func describePending(p Pending) string {
	if p.Kind == "" {
		return "nothing is requested"
	}
	return fmt.Sprintf("%s is requested of %v", p.Kind, p.Players)
}

func (m *monC10) After(td *TD, ev *ActEvent) *Viol {
	if ev.Kind == "finish" {
		return nil
	}
	t := td.table()
	kind := ev.Action
	if ev.Kind == "ready" {
		kind = "ready"
	} else if ev.Kind == "ante" || ev.Kind == "blinds" {
		kind = "pay"
	}
	if ev.Err != nil {
		return &Viol{Key: "accepted-action-refused@" + kind, Detail: fmt.Sprintf("%s by %s, allowed by the hand (%v), returned %v", kind, ev.ID, allowedOf(ev.Before.State.GameState, gameIdxOf(ev.Before, ev.ID)), ev.Err)}
	}
	pl, _ := playerByID(ev.Before, ev.ID)
	beforeGS := ev.Before.State.GameState
	if isWagerKind(kind) {
		// applied exactly once
		n := 0
		for _, c := range td.be.calls[ev.BeforeCalls:] {
			if strings.EqualFold(c.Kind, kind) && c.Err == "" {
				n++
			}
		}
		if n != 1 {
			return &Viol{Key: "not-applied-once@" + kind, Detail: fmt.Sprintf("%s by %s reached the hand engine %d times", kind, ev.ID, n)}
		}
		// action event
		var evs []pt.TablePlayerGameAction
		for _, a := range td.actions[ev.BeforeActs:] {
			if a.A.Action == kind && a.A.PlayerID == ev.ID {
				evs = append(evs, a.A)
			}
		}
		if len(evs) != 1 {
			return &Viol{Key: "action-event-count@" + kind, Detail: fmt.Sprintf("%s by %s produced %d action events naming it", kind, ev.ID, len(evs))}
		}
		a := evs[0]
		if a.Seat != pl.Seat || a.Round != beforeGS.Status.Round || a.GameCount != ev.Before.State.GameCount || a.GameID != beforeGS.GameID {
			return &Viol{Key: "action-event-fields@" + kind, Detail: fmt.Sprintf("event %+v does not name seat %d round %s hand %d/%s", a, pl.Seat, beforeGS.Status.Round, ev.Before.State.GameCount, beforeGS.GameID)}
		}
		// last action on the table: the snapshot emitted right after the action
		var first *Snap
		for _, s := range td.snaps {
			if s.Seq > 0 && s.VTime >= ev.VTime && s.T.State.LastPlayerGameAction != nil && s.T.State.LastPlayerGameAction.PlayerID == ev.ID && s.T.State.LastPlayerGameAction.Action == kind && s.T.State.GameCount == ev.Before.State.GameCount {
				first = s
			}
		}
		la := t.State.LastPlayerGameAction
		if first == nil && !(la != nil && la.PlayerID == ev.ID && la.Action == kind) {
			// RoundClosed clears the last action by design; accept if some snapshot carried it
			return &Viol{Key: "last-action-missing@" + kind, Detail: fmt.Sprintf("no published table state names %s by %s as last player action", kind, ev.ID)}
		}
		return nil
	}
	// ready / pay: the table's last player action names the player
	la := t.State.LastPlayerGameAction
	if ev.Remaining > 0 {
		if la == nil || la.PlayerID != ev.ID || la.Action != kind || la.Seat != pl.Seat || la.GameCount != ev.Before.State.GameCount {
			return &Viol{Key: "last-action-missing@" + kind, Detail: fmt.Sprintf("after %s by %s the table's last player action is %+v", kind, ev.ID, la)}
		}
		// the same response again: the hand is no longer waiting on this player
		before, _ := t.GetJSON()
		napplied := td.be.applied
		err := td.act(ev.ID, kind, ev.Amount)
		td.log = td.log[:len(td.log)-1]
		td.env.Settle()
		after, _ := td.table().GetJSON()
		if err == nil {
			return &Viol{Key: "dup-response-accepted@" + kind, Detail: fmt.Sprintf("a second %s from %s, already heard from at this %s request, returned nil", kind, ev.ID, ev.Kind)}
		}
		if before != after || napplied != td.be.applied {
			return &Viol{Key: "dup-response-left-trace@" + kind, Detail: fmt.Sprintf("a refused second %s from %s changed the table\nbefore: %s\nafter:  %s", kind, ev.ID, before, after)}
		}
		return nil
	}
	// the request is complete: every responder must have been published as an action event
	if ev.Kind == "ready" {
		m.readyReqs++
	}
	start := m.reqStartActs
	for _, id := range m.reqResponders(ev) {
		found := false
		for _, a := range td.actions[start:] {
			if a.A.PlayerID == id && a.A.Action == kind && a.A.GameCount == ev.Before.State.GameCount {
				found = true
			}
		}
		if !found {
			site := kind
			if ev.Kind == "blinds" {
				gi := gameIdxOf(ev.Before, id)
				gs := ev.Before.State.GameState
				switch {
				case gs.HasPosition(gi, "bb"), gs.HasPosition(gi, "sb"):
					site = "pay/blind"
				default:
					site = "pay/dealer-blind"
				}
			} else if ev.Kind == "ante" {
				site = "pay/ante"
			}
			return &Viol{Key: "action-event-missing@" + site, Detail: fmt.Sprintf("%s by %s was accepted but no action event names it (events since the request: %d)", kind, id, len(td.actions)-start)}
		}
	}
	return nil
}

// reqResponders: the players asked at the request that ev completes.
func (m *monC10) reqResponders(ev *ActEvent) []string {
	var ids []string
	gs := ev.Before.State.GameState
	want := "ready"
	if ev.Kind != "ready" {
		want = "pay"
	}
	for _, pl := range gs.Players {
		if hasStr(pl.AllowedActions, want) {
			pi := ev.Before.State.GamePlayerIndexes[pl.Idx]
			ids = append(ids, ev.Before.State.PlayerStates[pi].PlayerID)
		}
	}
	return ids
}

// ---- scenarios -----------------------------------------------------------------------------------

func c10Configs(tier string) []*handCfg {
	var out []*handCfg
	type lay struct {
		ids    []string
		seats  []int
		stacks []int64
	}
	lays := []lay{
		{[]string{"a", "b"}, []int{0, 2}, []int64{3, 5}},
		{[]string{"a", "b"}, []int{1, 3}, []int64{9, 2}},
		{[]string{"a", "b", "c"}, []int{0, 1, 3}, []int64{5, 3, 9}},
	}
	if tier == "thorough" {
		lays = append(lays,
			lay{[]string{"a", "b", "c"}, []int{0, 2, 3}, []int64{1, 9, 5}},
			lay{[]string{"a", "b", "c", "d"}, []int{0, 1, 2, 4}, []int64{5, 2, 9, 3}},
		)
	}
	blinds := []pt.TableBlindState{blindStd(), blindAnte(), blindDealer()}
	for li, l := range lays {
		for _, b := range blinds {
			if len(l.ids) >= 3 && tier == "quick" && b.Dealer > 0 {
				continue
			}
			tc := defaultCfg(5)
			tc.Blind = b
			tc.Deck = "asc"
			hc := &handCfg{name: fmt.Sprintf("lay%d/%s", li, blindName(b)), tcfg: tc, ids: l.ids, seatOf: l.seats, stacks: l.stacks, sitOut: true, hands: 1, line: lineExplore}
			out = append(out, hc)
			if li == 0 && b.Ante == 0 && b.Dealer == 0 {
				// the sitting-out player holds player-list index 0: list indexes differ from hand indexes
				d := *hc
				d.sitOutFirst = true
				d.name += "/sitting-out-first"
				out = append(out, &d)
			}
		}
	}
	return out
}

func init() {
	register(&Check{
		ID:    "C10",
		Level: "model_checking",
		Rule:  "full hand tree (every allowed wager action with a small amount menu) of one hand per configuration on the real engine; at every distinct quiescent node every (caller, action kind) pair the reference says must be refused is submitted and must return an error and leave table JSON, backend call log and event log unchanged; every edge taken must be applied exactly once and published; plus 2-caller concurrent submissions under all schedules within the preemption bound",
		Assumptions: []string{
			"amount legality of bet/raise belongs to the hand engine (pokerface); amounts are taken from {minimum, stack-1}",
			"2-4 dealt-in players plus one sitting-out player and one stranger; stacks 1..9; blind structures 1/2, 1/2+ante 1, dealer-blind 2",
		},
		Suites: func(tier string) []*Suite {
			var ss []*Suite
			for _, hc := range c10Configs(tier) {
				hc := hc
				ss = append(ss, &Suite{Name: "c10/tree/" + hc.name, Bound: 0, Weight: len(hc.ids) * len(hc.ids), Run: func(prefix []int) *vrt.Exec {
					return runHandCfg(prefix, hc, vrt.Config{}, func(td *TD) []Monitor { return []Monitor{&monC10{}} })
				}})
			}
			// concurrent submission at a wager turn (same scenarios as C16's game family): every schedule
			// within the preemption bound, observation must be explainable by a sequential order
			bound := 1
			if tier == "thorough" {
				bound = 2
			}
			for _, sc := range concScenarios(tier) {
				if !strings.HasPrefix(sc.name, "game/") {
					continue
				}
				sc := sc
				ss = append(ss, &Suite{Name: "c10/concurrent/" + sc.name, Bound: bound, Weight: 4, Run: sc.run})
			}
			return append(ss, c10RaceSuites(tier)...)
		},
	})
}
