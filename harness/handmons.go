package main

// Monitors for the per-hand properties C11, C14, C15 and the per-hand clauses of C01 / C02.

import (
	"fmt"
	"reflect"

	"github.com/weedbox/pokerface"
	"sort"
	"strings"

	pt "github.com/weedbox/pokertable"
	"verif.local/vrt"
)

// ---------------------------------------------------------------------------------------------
// C14 — per-hand statistics

type tally struct {
	actions, calls, checks int
	folded                 bool
	foldRound              string
}

type monC14 struct {
	baseMon
	tallies map[int]map[string]*tally // hand -> id -> tally
	checked map[int]bool
}

func newMonC14() *monC14 {
	return &monC14{tallies: map[int]map[string]*tally{}, checked: map[int]bool{}}
}

func (m *monC14) After(td *TD, ev *ActEvent) *Viol {
	if ev.Kind != "wager" || ev.Err != nil {
		return nil
	}
	h := ev.Before.State.GameCount
	if m.tallies[h] == nil {
		m.tallies[h] = map[string]*tally{}
	}
	t := m.tallies[h][ev.ID]
	if t == nil {
		t = &tally{}
		m.tallies[h][ev.ID] = t
	}
	switch ev.Action {
	case "fold", "check", "call", "bet", "raise", "allin":
		t.actions++
	}
	switch ev.Action {
	case "call":
		t.calls++
	case "check":
		t.checks++
	case "fold":
		t.folded = true
		t.foldRound = ev.Before.State.GameState.Status.Round
	}
	return m.scan(td)
}

func (m *monC14) Quiescent(td *TD, p Pending) *Viol {
	if v := m.scan(td); v != nil {
		return v
	}
	// between hands everything is cleared
	t := td.table()
	if t.State.Status == pt.TableStateStatus_TableGameStandby || t.State.Status == pt.TableStateStatus_TableGameOpened {
		return m.allZero(t, "at "+string(t.State.Status))
	}
	return nil
}

func (m *monC14) End(td *TD) *Viol {
	if v := m.scan(td); v != nil {
		return v
	}
	t := td.table()
	if t.State.Status == pt.TableStateStatus_TableGameStandby {
		return m.allZero(t, "at standby")
	}
	return nil
}

func (m *monC14) allZero(t *pt.Table, where string) *Viol {
	zero := pt.NewPlayerGameStatistics()
	for _, p := range t.State.PlayerStates {
		if !reflect.DeepEqual(p.GameStatistics, zero) {
			return &Viol{Key: "stats-not-cleared", Detail: fmt.Sprintf("%s player %s still carries statistics %+v", where, p.PlayerID, p.GameStatistics)}
		}
	}
	return nil
}

// scan checks every settled snapshot not yet checked, and every opened snapshot for cleared blocks.
func (m *monC14) scan(td *TD) *Viol {
	for _, s := range td.snaps {
		st := s.T.State
		if st.Status == pt.TableStateStatus_TableGameOpened {
			if v := m.allZero(s.T, fmt.Sprintf("when hand %d opened", st.GameCount)); v != nil {
				return v
			}
		}
		if st.Status != pt.TableStateStatus_TableGameSettled || m.checked[st.GameCount] {
			continue
		}
		m.checked[st.GameCount] = true
		threeB := 0
		for _, pi := range st.GamePlayerIndexes {
			p := st.PlayerStates[pi]
			g := p.GameStatistics
			t := m.tallies[st.GameCount][p.PlayerID]
			if t == nil {
				t = &tally{}
			}
			if g.ActionTimes != t.actions || g.CallTimes != t.calls || g.CheckTimes != t.checks {
				return &Viol{Key: "counters", Detail: fmt.Sprintf("hand %d player %s: action/call/check counters %d/%d/%d, accepted actions %d/%d/%d", st.GameCount, p.PlayerID, g.ActionTimes, g.CallTimes, g.CheckTimes, t.actions, t.calls, t.checks)}
			}
			if g.RaiseTimes > g.ActionTimes {
				return &Viol{Key: "raises-exceed-actions", Detail: fmt.Sprintf("hand %d player %s: raises %d > actions %d", st.GameCount, p.PlayerID, g.RaiseTimes, g.ActionTimes)}
			}
			if g.IsFold != t.folded || (t.folded && g.FoldRound != t.foldRound) || (!t.folded && g.FoldRound != "") {
				return &Viol{Key: "fold-flag", Detail: fmt.Sprintf("hand %d player %s: fold flag %v round %q, actually folded=%v in %q", st.GameCount, p.PlayerID, g.IsFold, g.FoldRound, t.folded, t.foldRound)}
			}
			pairs := []struct {
				name        string
				did, chance bool
			}{
				{"vpip", g.IsVPIP, g.IsVPIPChance}, {"pfr", g.IsPFR, g.IsPFRChance}, {"ats", g.IsATS, g.IsATSChance}, {"3b", g.Is3B, g.Is3BChance},
				{"ft3b", g.IsFt3B, g.IsFt3BChance}, {"check-raise", g.IsCheckRaise, g.IsCheckRaiseChance}, {"c-bet", g.IsCBet, g.IsCBetChance},
				{"ftcb", g.IsFtCB, g.IsFtCBChance}, {"showdown-win", g.IsShowdownWinning, g.ShowdownWinningChance},
			}
			for _, pr := range pairs {
				if pr.did && !pr.chance {
					return &Viol{Key: "did-without-chance@" + pr.name, Detail: fmt.Sprintf("hand %d player %s: %s flag set without its chance flag (%+v)", st.GameCount, p.PlayerID, pr.name, g)}
				}
			}
			if g.Is3B {
				threeB++
			}
		}
		if threeB > 1 {
			return &Viol{Key: "two-3bettors", Detail: fmt.Sprintf("hand %d: %d players hold the 3-bet flag", st.GameCount, threeB)}
		}
	}
	return nil
}

// ---------------------------------------------------------------------------------------------
// C15 — the published action deadline

type monC15 struct {
	baseMon
	extend   bool
	seenSnap int
	extSnaps map[int]int64 // snapshots published by an extension call -> deadline they must carry
}

func (m *monC15) Quiescent(td *TD, p Pending) *Viol {
	t := td.table()
	// every recorded snapshot: RoundClosed and between hands => cleared
	for ; m.seenSnap < len(td.snaps); m.seenSnap++ {
		s := td.snaps[m.seenSnap]
		st := s.T.State
		ev := gsEvent(s.T)
		if (ev == "RoundClosed" || st.Status == pt.TableStateStatus_TableGameOpened) && st.CurrentActionEndAt != 0 {
			return &Viol{Key: "deadline-not-cleared@" + statusClass(s.T), Detail: fmt.Sprintf("snapshot #%d (%s %s) still publishes action deadline %d", s.T.UpdateSerial, st.Status, ev, st.CurrentActionEndAt)}
		}
		if st.Status == pt.TableStateStatus_TableGamePlaying && ev == "RoundStarted" {
			gs := st.GameState
			cp := gs.GetPlayer(gs.Status.CurrentPlayer)
			isWager := cp != nil && len(cp.AllowedActions) > 0
			if isWager {
				for _, a := range cp.AllowedActions {
					if !hasStr([]string{"fold", "check", "call", "bet", "raise", "allin"}, a) {
						isWager = false
					}
				}
			}
			if isWager && !cp.Acted {
				want := s.VTime/1e9 + int64(s.T.Meta.ActionTime)
				if w, ok := m.extSnaps[s.Seq]; ok {
					want = w
				}
				if st.CurrentActionEndAt != want {
					return &Viol{Key: "deadline-wrong", Detail: fmt.Sprintf("snapshot #%d asks %s (%v) at t=%d with action time %d: published deadline %d, expected %d", s.T.UpdateSerial, td.idOfGameIdx(s.T, cp.Idx), cp.AllowedActions, s.VTime/1e9, s.T.Meta.ActionTime, st.CurrentActionEndAt, want)}
				}
			}
		}
	}
	if t.State.Status == pt.TableStateStatus_TableGameStandby && t.State.CurrentActionEndAt != 0 {
		return &Viol{Key: "deadline-not-cleared@standby", Detail: fmt.Sprintf("between hands the table publishes action deadline %d", t.State.CurrentActionEndAt)}
	}
	if m.extend && p.Kind == "wager" {
		for _, d := range []int{1, 15} {
			old := td.table().State.CurrentActionEndAt
			n0 := len(td.snaps)
			got, err := td.te.PlayerExtendActionDeadline(p.Players[0], d)
			now := td.table().State.CurrentActionEndAt
			if m.extSnaps == nil {
				m.extSnaps = map[int]int64{}
			}
			for _, s := range td.snaps[n0:] {
				m.extSnaps[s.Seq] = old + int64(d)
			}
			if err != nil || got != old+int64(d) || now != old+int64(d) {
				return &Viol{Key: "extension", Detail: fmt.Sprintf("extension by %ds of deadline %d returned (%d,%v), table now publishes %d", d, old, got, err, now)}
			}
		}
	}
	return nil
}

func (m *monC15) End(td *TD) *Viol { return m.Quiescent(td, Pending{}) }

// ---------------------------------------------------------------------------------------------
// C11 — a hand advances exactly when everyone asked has answered

type monC11 struct {
	baseMon
	curReq      string
	reqTime     int64
	reqKind     string
	outstanding int
}

func (m *monC11) Quiescent(td *TD, p Pending) *Viol {
	t := td.table()
	if p.Kind == "ready" || p.Kind == "ante" || p.Kind == "blinds" {
		if td.reqKey != m.curReq {
			m.curReq, m.reqTime, m.reqKind, m.outstanding = td.reqKey, td.env.Now(), p.Kind, len(p.Players)
		}
	} else if m.curReq != "" {
		// the request is over
		if m.outstanding > 0 && td.env.Now() < m.reqTime+17*1e9 {
			return &Viol{Key: "advanced-before-timeout@" + m.reqKind, Detail: fmt.Sprintf("the %s request still had %d unanswered players and only %dms of the 17s response timeout had passed, yet the hand moved on", m.reqKind, m.outstanding, (td.env.Now()-m.reqTime)/1e6)}
		}
		m.curReq = ""
	}
	gs := t.State.GameState
	if gs == nil || t.State.Status != pt.TableStateStatus_TableGamePlaying {
		return nil
	}
	switch p.Kind {
	case "ready", "ante":
		// asked of all dealt-in players
		if len(td.responded) == 0 && len(p.Players) != len(gs.Players) {
			return &Viol{Key: "asked-set@" + p.Kind, Detail: fmt.Sprintf("%s request asks %v, the hand has %d dealt-in players", p.Kind, p.Players, len(gs.Players))}
		}
	case "blinds":
		var want []string
		for _, pl := range gs.Players {
			owes := (gs.Meta.Blind.BB > 0 && gs.HasPosition(pl.Idx, "bb")) || (gs.Meta.Blind.SB > 0 && gs.HasPosition(pl.Idx, "sb")) || (gs.Meta.Blind.Dealer > 0 && gs.HasPosition(pl.Idx, "dealer"))
			if owes {
				want = append(want, td.idOfGameIdx(t, pl.Idx))
			}
		}
		got := append([]string{}, p.Players...)
		sort.Strings(want)
		sort.Strings(got)
		if len(td.responded) == 0 && strings.Join(want, ",") != strings.Join(got, ",") {
			return &Viol{Key: "asked-set@blinds", Detail: fmt.Sprintf("blind request asks %v, positions owing a blind are %v", got, want)}
		}
	}
	return nil
}

func (m *monC11) After(td *TD, ev *ActEvent) *Viol {
	if ev.Kind != "ready" && ev.Kind != "ante" && ev.Kind != "blinds" {
		return nil
	}
	t := td.table()
	now := gsEvent(t)
	was := gsEvent(ev.Before)
	// outstanding = asked players not yet heard from, including withheld ones
	outstanding := ev.Remaining
	m.outstanding = outstanding
	if outstanding > 0 {
		if t.State.GameCount == ev.Before.State.GameCount && (now != was || td.be.applied != ev.BeforeCalls2(td)) {
			return &Viol{Key: "advanced-early@" + ev.Kind, Detail: fmt.Sprintf("after %s's response to the %s request with %d players still outstanding the hand moved from %s to %s", ev.ID, ev.Kind, outstanding, was, now)}
		}
		return nil
	}
	if t.State.GameCount == ev.Before.State.GameCount && t.State.Status == pt.TableStateStatus_TableGamePlaying && now == was && t.State.GameState.Status.Round == ev.Before.State.GameState.Status.Round && td.be.applied == ev.BeforeCalls2(td) {
		return &Viol{Key: "stuck-after-all-answered@" + ev.Kind, Detail: fmt.Sprintf("everyone asked has answered the %s request but the hand stays at %s with no external call", ev.Kind, was)}
	}
	return nil
}

func (m *monC11) End(td *TD) *Viol {
	// every opened hand reached settlement with one result entry per participant
	opened := map[int]int{}
	settled := map[int]int{}
	for _, s := range td.snaps {
		st := s.T.State
		if st.Status == pt.TableStateStatus_TableGameOpened {
			opened[st.GameCount] = len(st.GamePlayerIndexes)
		}
		if st.Status == pt.TableStateStatus_TableGameSettled && st.GameState != nil && st.GameState.Result != nil {
			settled[st.GameCount] = len(st.GameState.Result.Players)
		}
	}
	for h, n := range opened {
		r, ok := settled[h]
		if !ok {
			return &Viol{Key: "hand-never-settled", Detail: fmt.Sprintf("hand %d opened with %d participants, every request was answered, but it never reached settlement (status %s, event %s)", h, n, td.status(), gsEvent(td.table()))}
		}
		if r != n {
			return &Viol{Key: "result-entries", Detail: fmt.Sprintf("hand %d: %d participants, %d result entries", h, n, r)}
		}
	}
	return nil
}

// BeforeCalls2: number of applied backend calls when the event was captured.
func (ev *ActEvent) BeforeCalls2(td *TD) int { return ev.BeforeApplied }

// ---------------------------------------------------------------------------------------------
// C02 / C01 per-hand clauses: identity of game indexes and chip equation

type handIdentity struct {
	ids      []string
	bankroll []int64 // at open
	others   map[string]int64
	topups   map[string]int64
}

type monHandChips struct {
	baseMon
	prop     string // "C01" or "C02": selects which clauses are reported
	hands    map[int]*handIdentity
	seenSnap int
	settled  map[int]bool
	topup    func(h int, id string) int64 // chips credited to id during hand h by the scenario
	// C02: who has answered the request currently being collected
	answered    map[string]bool
	answeredKey string
}

func newMonHandChips(prop string) *monHandChips {
	return &monHandChips{prop: prop, hands: map[int]*handIdentity{}, settled: map[int]bool{}}
}

func (m *monHandChips) scan(td *TD) *Viol {
	for ; m.seenSnap < len(td.snaps); m.seenSnap++ {
		s := td.snaps[m.seenSnap]
		st := s.T.State
		h := st.GameCount
		switch st.Status {
		case pt.TableStateStatus_TableGameOpened:
			hi := &handIdentity{others: map[string]int64{}, topups: map[string]int64{}}
			for _, pi := range st.GamePlayerIndexes {
				hi.ids = append(hi.ids, st.PlayerStates[pi].PlayerID)
				hi.bankroll = append(hi.bankroll, st.PlayerStates[pi].Bankroll)
			}
			for _, p := range st.PlayerStates {
				hi.others[p.PlayerID] = p.Bankroll
			}
			m.hands[h] = hi
			if m.prop == "C02" {
				// exactly the dealt-in players, each once, clockwise from the first entry
				var part []string
				for _, p := range st.PlayerStates {
					if p.IsParticipated {
						part = append(part, p.PlayerID)
					}
				}
				a, b := append([]string{}, part...), append([]string{}, hi.ids...)
				sort.Strings(a)
				sort.Strings(b)
				if strings.Join(a, ",") != strings.Join(b, ",") {
					return &Viol{Key: "list-not-dealt-in-set", Detail: fmt.Sprintf("hand %d: player list %v, dealt-in players %v", h, hi.ids, part)}
				}
				n := s.T.Meta.TableMaxSeatCount
				for i := 1; i < len(hi.ids); i++ {
					p0, _ := playerByID(s.T, hi.ids[0])
					pa, _ := playerByID(s.T, hi.ids[i-1])
					pb, _ := playerByID(s.T, hi.ids[i])
					da := ((pa.Seat-p0.Seat)%n + n) % n
					db := ((pb.Seat-p0.Seat)%n + n) % n
					if db <= da {
						return &Viol{Key: "list-not-clockwise", Detail: fmt.Sprintf("hand %d: player list %v is not in clockwise seat order", h, hi.ids)}
					}
				}
			}
		case pt.TableStateStatus_TableGamePlaying, pt.TableStateStatus_TableGameSettled:
			hi := m.hands[h]
			if hi == nil || st.GameState == nil {
				continue
			}
			if m.prop == "C02" {
				// same index, same player; stacks handed to the hand engine
				for gi, pi := range st.GamePlayerIndexes {
					if gi < len(hi.ids) && pi < len(st.PlayerStates) && st.PlayerStates[pi].PlayerID != hi.ids[gi] {
						return &Viol{Key: "index-renamed", Detail: fmt.Sprintf("hand %d snapshot #%d: entry %d now denotes %s, at open it denoted %s", h, s.T.UpdateSerial, gi, st.PlayerStates[pi].PlayerID, hi.ids[gi])}
					}
				}
				if len(st.GameState.Players) != len(hi.ids) {
					return &Viol{Key: "engine-player-count", Detail: fmt.Sprintf("hand %d: hand engine has %d players, list has %d", h, len(st.GameState.Players), len(hi.ids))}
				}
				for gi, gp := range st.GameState.Players {
					if gp.Bankroll != hi.bankroll[gi] {
						return &Viol{Key: "starting-stack", Detail: fmt.Sprintf("hand %d: hand engine entry %d starts with %d, %s's bankroll at open was %d", h, gi, gp.Bankroll, hi.ids[gi], hi.bankroll[gi])}
					}
				}
			}
			if st.Status == pt.TableStateStatus_TableGameSettled && !m.settled[h] {
				m.settled[h] = true
				res := st.GameState.Result
				if res == nil {
					return &Viol{Key: "no-result", Detail: fmt.Sprintf("hand %d settled without a result", h)}
				}
				var sum int64
				seen := map[string]bool{}
				for _, r := range res.Players {
					sum += r.Changed
					if r.Idx < 0 || r.Idx >= len(hi.ids) {
						return &Viol{Key: "result-index", Detail: fmt.Sprintf("hand %d: result entry for index %d", h, r.Idx)}
					}
					id := hi.ids[r.Idx]
					seen[id] = true
					p, _ := playerByID(s.T, id)
					if p == nil {
						continue // left during the hand
					}
					top := int64(0)
					if m.topup != nil {
						top = m.topup(h, id)
					}
					want := hi.bankroll[r.Idx] + r.Changed + top
					if p.Bankroll != want {
						return &Viol{Key: "result-not-credited", Detail: fmt.Sprintf("hand %d: %s had %d at open, result %+d, top-ups %d: expected %d, bankroll is %d", h, id, hi.bankroll[r.Idx], r.Changed, top, want, p.Bankroll)}
					}
				}
				if sum != 0 {
					return &Viol{Key: "results-not-zero-sum", Detail: fmt.Sprintf("hand %d: results sum to %d", h, sum)}
				}
				for _, p := range st.PlayerStates {
					if seen[p.PlayerID] {
						continue
					}
					before, ok := hi.others[p.PlayerID]
					top := int64(0)
					if m.topup != nil {
						top = m.topup(h, p.PlayerID)
					}
					if ok && p.Bankroll != before+top {
						return &Viol{Key: "bystander-bankroll-changed", Detail: fmt.Sprintf("hand %d: %s was not dealt in, bankroll went %d -> %d (top-ups %d)", h, p.PlayerID, before, p.Bankroll, top)}
					}
				}
			}
		}
	}
	return nil
}

func (m *monHandChips) Quiescent(td *TD, p Pending) *Viol { return m.scan(td) }
func (m *monHandChips) End(td *TD) *Viol                  { return m.scan(td) }
func (m *monHandChips) After(td *TD, ev *ActEvent) *Viol {
	if v := m.scan(td); v != nil {
		return v
	}
	if m.prop == "C02" && (ev.Kind == "ready" || ev.Kind == "ante" || ev.Kind == "blinds") {
		return m.responseAttribution(td, ev)
	}
	if m.prop != "C02" || ev.Kind != "wager" || ev.Err != nil {
		return nil
	}
	// the accepted action was applied to the submitting player's entry
	hi := m.hands[ev.Before.State.GameCount]
	if hi == nil {
		return nil
	}
	// find the game state produced by this action: first snapshot after ev with LastAction of that type
	for i := len(td.snaps) - 1; i >= 0; i-- {
		s := td.snaps[i]
		if s.VTime < ev.VTime || s.T.State.GameState == nil {
			break
		}
		la := s.T.State.GameState.Status.LastAction
		if la != nil && la.Type == ev.Action {
			if la.Source >= 0 && la.Source < len(hi.ids) && hi.ids[la.Source] != ev.ID {
				return &Viol{Key: "action-applied-to-other-entry", Detail: fmt.Sprintf("%s by %s was applied to entry %d which denotes %s", ev.Action, ev.ID, la.Source, hi.ids[la.Source])}
			}
			break
		}
	}
	for _, a := range td.actions[ev.BeforeActs:] {
		if a.A.Action == ev.Action && a.A.PlayerID == ev.ID {
			p, _ := playerByID(ev.Before, ev.ID)
			if a.A.Seat != p.Seat {
				return &Viol{Key: "action-event-seat", Detail: fmt.Sprintf("action event for %s names seat %d, the player sits at %d", ev.ID, a.A.Seat, p.Seat)}
			}
		}
	}
	return nil
}

// responseAttribution (C02): an accepted readiness / ante / blind response is recorded for the submitter's own
// entry of the hand's player list and for no other. The hand's response collection is read through the
// build-tagged accessor at the quiescent point after the call; while the request is still open (somebody asked
// has not answered yet) the entries heard from must be exactly those of the players who answered.
func (m *monHandChips) responseAttribution(td *TD, ev *ActEvent) *Viol {
	hi := m.hands[ev.Before.State.GameCount]
	bgs := ev.Before.State.GameState
	if hi == nil || bgs == nil {
		return nil
	}
	key := fmt.Sprintf("%d/%s/%s", ev.Before.State.GameCount, bgs.Status.Round, bgs.Status.CurrentEvent)
	if m.answered == nil || m.answeredKey != key {
		m.answered, m.answeredKey = map[string]bool{}, key
	}
	if ev.Err != nil {
		return nil
	}
	m.answered[ev.ID] = true
	t := td.table()
	cgs := t.State.GameState
	if cgs == nil || t.State.GameCount != ev.Before.State.GameCount || cgs.Status.Round != bgs.Status.Round || cgs.Status.CurrentEvent != bgs.Status.CurrentEvent {
		return nil // the request has been completed, the hand moved on
	}
	open := false
	for _, id := range ev.P.Players {
		if !m.answered[id] {
			open = true
		}
	}
	st := pt.VerifHandResponses(td.te)
	if !open || st == nil {
		return nil
	}
	for idx, ready := range st {
		if idx < 0 || int(idx) >= len(hi.ids) {
			return &Viol{Key: "response-recorded-for-other-entry", Detail: fmt.Sprintf("hand %d %s: the response collection holds entry %d, the hand has %d entries %v", t.State.GameCount, key, idx, len(hi.ids), hi.ids)}
		}
		who := hi.ids[idx]
		if ready != m.answered[who] {
			return &Viol{Key: "response-recorded-for-other-entry", Detail: fmt.Sprintf("hand %d %s: after %s(%s) was accepted, entry %d (%s) counts as answered=%v; answered so far: %v; collection %v; entries %v", t.State.GameCount, key, ev.Kind, ev.ID, idx, who, ready, keysOf(m.answered), st, hi.ids)}
		}
	}
	return nil
}

func keysOf(m map[string]bool) []string {
	var out []string
	for k, v := range m {
		if v {
			out = append(out, k)
		}
	}
	sort.Strings(out)
	return out
}

// ---------------------------------------------------------------------------------------------
// registration of the hand-tree checks

func handTreeSuites(prefix string, cfgs []*handCfg, mk func(hc *handCfg) func(td *TD) []Monitor) []*Suite {
	var ss []*Suite
	for _, hc := range cfgs {
		hc := hc
		ss = append(ss, &Suite{Name: prefix + hc.name, Bound: 0, Weight: len(hc.ids) * len(hc.ids) * hc.hands, Run: func(prefix []int) *vrt.Exec {
			return runHandCfg(prefix, hc, vrt.Config{}, mk(hc))
		}})
	}
	return ss
}

func lineFirstHandExplore(rest Line) Line {
	return func(td *TD, gs *pokerface.GameState, cp *pokerface.PlayerState) (string, int64) {
		if td.table().State.GameCount == 1 {
			return lineExplore(td, gs, cp)
		}
		return rest(td, gs, cp)
	}
}

func c14Configs(tier string) []*handCfg {
	var out []*handCfg
	for i, hc := range c10Configs(tier) {
		c := *hc
		c.sitOut = false
		c.hands = 2
		c.line = lineFirstHandExplore(lineCheckDown)
		c.pol = HandPolicy{Finish: "all"}
		out = append(out, &c)
		// the same with a seated player who is not dealt in and holds player-list index 0, so that the
		// hand's indexes differ from the player list's
		if i%3 == 0 {
			d := c
			d.sitOut, d.sitOutFirst = true, true
			d.name = hc.name + "/sitting-out-first"
			out = append(out, &d)
		}
	}
	// deep stacks: room for an open raise, a 3-bet and a 4-bet (the 3-bet flag has to move)
	for _, first := range []bool{false, true} {
		tc := defaultCfg(5)
		tc.Blind = blindStd()
		hc := &handCfg{name: fmt.Sprintf("deep-headsup/sitting-out-first=%v", first), tcfg: tc, ids: []string{"a", "b"}, seatOf: []int{0, 2}, stacks: []int64{14, 13},
			sitOut: first, sitOutFirst: first, hands: 2, line: lineFirstHandExplore(lineCheckDown), pol: HandPolicy{Finish: "all"}}
		out = append(out, hc)
	}
	return out
}

func c15Configs(tier string) []*handCfg {
	var out []*handCfg
	ats := []int{0, 1, 10, 30, 75}
	for i, hc := range c10Configs(tier) {
		for _, at := range ats {
			if tier == "quick" && len(hc.ids) >= 3 && at != 10 {
				continue
			}
			c := *hc
			c.tcfg.ActionTime = at
			c.sitOut = false
			c.hands = 2
			c.advance = 3
			c.line = lineFirstHandExplore(lineCheckDown)
			c.pol = HandPolicy{Finish: "all"}
			c.name = fmt.Sprintf("%s/at%d", hc.name, at)
			_ = i
			out = append(out, &c)
		}
	}
	return out
}

func c11Configs(tier string) []*handCfg {
	var out []*handCfg
	type lay struct {
		ids    []string
		seats  []int
		stacks []int64
	}
	lays := []lay{
		{[]string{"a", "b"}, []int{0, 2}, []int64{6, 9}},
		{[]string{"a", "b", "c"}, []int{0, 1, 3}, []int64{6, 4, 9}},
		{[]string{"a", "b", "c", "d"}, []int{0, 1, 2, 4}, []int64{6, 4, 9, 5}},
	}
	if tier == "thorough" {
		lays = append(lays, lay{[]string{"a", "b", "c", "d", "e", "f"}, []int{0, 1, 2, 4, 5, 6}, []int64{6, 4, 9, 5, 7, 8}},
			lay{[]string{"a", "b", "c", "d", "e", "f", "g", "h", "i"}, []int{0, 1, 2, 3, 4, 5, 6, 7, 8}, []int64{6, 4, 9, 5, 7, 8, 6, 6, 6}})
	}
	lines := map[string]Line{"checkdown": lineCheckDown, "foldout": lineFoldOut, "allin": lineAllIn}
	lnames := []string{"checkdown", "foldout", "allin"}
	blinds := []pt.TableBlindState{blindStd(), blindAnte(), blindDealer(), blindNoSB()}
	for li, l := range lays {
		for _, b := range blinds {
			for _, ln := range lnames {
				for _, rev := range []bool{false, true} {
					withs := append([]string{""}, l.ids...)
					if len(l.ids) > 4 {
						withs = []string{"", l.ids[0], l.ids[len(l.ids)-1]}
					}
					for _, w := range withs {
						if w != "" && (rev || ln != "checkdown") {
							continue
						}
						tc := defaultCfg(9)
						tc.Blind = b
						hc := &handCfg{name: fmt.Sprintf("lay%d/%s/%s/rev=%v/withhold=%s", li, blindName(b), ln, rev, w), tcfg: tc, ids: l.ids, seatOf: l.seats, stacks: l.stacks, hands: 2, line: lines[ln]}
						hc.pol = HandPolicy{Reverse: rev, Finish: "all", Withhold: map[string]bool{}}
						if w != "" {
							hc.pol.Withhold[w] = true
						}
						out = append(out, hc)
					}
				}
			}
		}
	}
	// short-deck tables (ante from everybody, blind from the dealer only)
	for li, l := range lays {
		if len(l.ids) > 4 {
			continue
		}
		for _, ln := range lnames {
			for _, rev := range []bool{false, true} {
				tc := defaultCfg(9)
				tc.Rule = pt.CompetitionRule_ShortDeck
				tc.Blind = pt.TableBlindState{Level: 1, Ante: 1, Dealer: 2, SB: 0, BB: 0}
				tc.Deck = "plain"
				hc := &handCfg{name: fmt.Sprintf("lay%d/short-deck/%s/rev=%v", li, ln, rev), tcfg: tc, ids: l.ids, seatOf: l.seats, stacks: l.stacks, hands: 2, line: lines[ln]}
				hc.pol = HandPolicy{Reverse: rev, Finish: "all", Withhold: map[string]bool{}}
				out = append(out, hc)
			}
		}
	}
	// every betting line (round-skipping shapes included) with the default order
	for _, hc := range c10Configs(tier) {
		c := *hc
		c.sitOut = false
		c.name = "tree/" + hc.name
		out = append(out, &c)
	}
	return out
}

func init() {
	register(&Check{
		ID: "C14", Level: "model_checking",
		Rule:        "full hand tree of the first hand (every allowed wager action, small amount menu) followed by a check-down second hand, per configuration, on the real engine; a shadow tally of accepted actions is compared with the statistics block published at settlement, and the blocks are required to be zero when the next hand opens and at standby",
		Assumptions: []string{"2-4 participants, stacks 1..9, blind structures 1/2, 1/2+ante, dealer-blind"},
		Suites: func(tier string) []*Suite {
			ss := handTreeSuites("c14/", c14Configs(tier), func(hc *handCfg) func(td *TD) []Monitor {
				return func(td *TD) []Monitor { return []Monitor{newMonC14()} }
			})
			return append(ss, c14RaceSuites(tier)...)
		},
	})
	register(&Check{
		ID: "C15", Level: "model_checking",
		Rule:        "full hand tree of the first hand plus a check-down second hand per configuration and action time in {0,1,10,30}s, the virtual clock advanced 3s before every wager action; every published RoundStarted snapshot asking an unmoved player for a wager action must carry deadline = virtual time of publication + action time, RoundClosed / opened / standby must carry 0, and extensions by 1s and 15s at every turn must return and publish old+d; plus every schedule (<= 2 preemptions, fine mode) of a 15s extension requested at the same time as the asked player's answer: the next player's published deadline must be request time + action time, plus 15s iff the extension's return value says it was applied after the turn moved",
		Assumptions: []string{"the clock is virtual, so equality is exact (seconds)", "2-4 participants"},
		Suites: func(tier string) []*Suite {
			ss := handTreeSuites("c15/", c15Configs(tier), func(hc *handCfg) func(td *TD) []Monitor {
				return func(td *TD) []Monitor { return []Monitor{&monC15{extend: true}} }
			})
			return append(ss, c15RaceSuites(tier)...)
		},
	})
	register(&Check{
		ID: "C11", Level: "model_checking",
		Rule:        "two-hand histories per (layout 2..4 (thorough 9) players, blind structure incl. ante / dealer-blind / no-SB, line, response order, single withheld responder) and the full hand tree of C10's configurations; after each response but the last the hand must not have moved, after the last (or the 17s virtual timeout) it must move with no external call, the asked sets must match, and every opened hand must settle with one result entry per participant",
		Assumptions: []string{"responses are submitted one at a time with the system run to quiescence in between (concurrent submission is C16's subject)"},
		Suites: func(tier string) []*Suite {
			return handTreeSuites("c11/", c11Configs(tier), func(hc *handCfg) func(td *TD) []Monitor {
				return func(td *TD) []Monitor { return []Monitor{&monC11{}} }
			})
		},
	})
}
