package main

import "reflect"

// deepCopy returns a deep copy of v (pointers, structs with exported fields, slices, maps, basics).
func deepCopy[T any](v T) T {
	return dc(reflect.ValueOf(v)).Interface().(T)
}

func dc(v reflect.Value) reflect.Value {
	switch v.Kind() {
	case reflect.Ptr:
		if v.IsNil() {
			return v
		}
		n := reflect.New(v.Type().Elem())
		n.Elem().Set(dc(v.Elem()))
		return n
	case reflect.Struct:
		n := reflect.New(v.Type()).Elem()
		for i := 0; i < v.NumField(); i++ {
			if !n.Field(i).CanSet() {
				continue
			}
			n.Field(i).Set(dc(v.Field(i)))
		}
		return n
	case reflect.Slice:
		if v.IsNil() {
			return v
		}
		n := reflect.MakeSlice(v.Type(), v.Len(), v.Len())
		for i := 0; i < v.Len(); i++ {
			n.Index(i).Set(dc(v.Index(i)))
		}
		return n
	case reflect.Map:
		if v.IsNil() {
			return v
		}
		n := reflect.MakeMapWithSize(v.Type(), v.Len())
		it := v.MapRange()
		for it.Next() {
			n.SetMapIndex(dc(it.Key()), dc(it.Value()))
		}
		return n
	case reflect.Interface:
		if v.IsNil() {
			return v
		}
		n := reflect.New(v.Type()).Elem()
		n.Set(dc(v.Elem()))
		return n
	}
	return v
}
