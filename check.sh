#!/bin/bash
# usage: check.sh <property> quick|thorough [extra vcheck flags]
#        check.sh replay <file>
# Instruments /repo's current working tree (build tag verif), builds the harness against it in a
# scratch directory, runs the check, removes the scratch directory.
# exit 0: property held on everything explored; 1: VIOLATION printed; 2: harness/build error.
set -u
VERIF="$(cd "$(dirname "$0")" && pwd)"
REPO="${VERIF_REPO:-/repo}"
export GOFLAGS=-mod=mod GOPROXY=off GOSUMDB=off GOTOOLCHAIN=local
export GOCACHE="${GOCACHE:-$HOME/.cache/go-build}"
SCR="$(mktemp -d "${TMPDIR:-/tmp}/vrf-XXXXXX")"
trap '[ -n "${VERIF_KEEP:-}" ] && echo "kept $SCR" || rm -rf "$SCR"' EXIT
if [ ! -x "$VERIF/bin/vinstr" ] || [ "$VERIF/vinstr/main.go" -nt "$VERIF/bin/vinstr" ]; then
  (cd "$VERIF/vinstr" && go build -o "$VERIF/bin/vinstr" .) || { echo "HARNESS-ERROR: cannot build vinstr"; exit 2; }
fi
"$VERIF/bin/vinstr" -repo "$REPO" -out "$SCR" >"$SCR/vinstr.log" 2>&1 || { cat "$SCR/vinstr.log"; echo "HARNESS-ERROR: instrumentation of $REPO failed"; exit 2; }
mkdir -p "$SCR/h"
cp "$VERIF"/harness/*.go "$SCR/h/"
cp "$REPO/go.sum" "$SCR/h/go.sum"
cat > "$SCR/h/go.mod" <<MOD
module verif.local/h

go 1.21

require (
	github.com/weedbox/pokertable v0.0.0
	github.com/weedbox/pokerface v0.1.10
	github.com/weedbox/syncsaga v0.0.0-20230821071725-a634f0872340
	github.com/weedbox/timebank v0.0.0-20230713013837-bd7a6f808e3e
	github.com/thoas/go-funk v0.9.3
	github.com/google/uuid v1.3.1
	verif.local/vrt v0.0.0
)

replace github.com/weedbox/pokertable => $SCR/pokertable
replace github.com/weedbox/syncsaga => $SCR/syncsaga
replace github.com/weedbox/timebank => $SCR/timebank
replace verif.local/vrt => $VERIF/vrt
MOD
(cd "$SCR/h" && go build -tags verif -o "$SCR/vcheck" . ) >"$SCR/build.log" 2>&1 || { cat "$SCR/build.log"; echo "HARNESS-ERROR: harness does not build against $REPO"; exit 2; }
if [ "${1:-}" = "replay" ]; then
  "$SCR/vcheck" -verif "$VERIF" -replay "$2"
  exit $?
fi
ID="$1"; TIER="${2:-quick}"; shift; shift
mkdir -p "$VERIF/evidence"
"$SCR/vcheck" -verif "$VERIF" -prop "$ID" -tier "$TIER" -evidence "$VERIF/evidence/$ID.json" "$@"
exit $?
