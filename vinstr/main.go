// vinstr rewrites the non-test sources of weedbox/pokertable (current working tree of
// the given repository directory, build tag "verif" on) and of the pinned syncsaga /
// timebank modules so that they run under the controlled runtime verif.local/vrt.
//
//	vinstr -repo /repo -out <scratch>
//
// produces <scratch>/pokertable, <scratch>/syncsaga, <scratch>/timebank.
// Exit status 2 on anything it cannot handle; it never prints a VIOLATION line.
package main

import (
	"bytes"
	"flag"
	"fmt"
	"go/ast"
	"go/printer"
	"go/token"
	"go/types"
	"os"
	"path/filepath"
	"strconv"
	"strings"

	"golang.org/x/tools/go/ast/astutil"
	"golang.org/x/tools/go/packages"
)

const vrtName = "vrtX"

var importSubst = map[string][2]string{
	"sync":        {"verif.local/vrt/vsync", "sync"},
	"sync/atomic": {"verif.local/vrt/vatomic", "atomic"},
	"time":        {"verif.local/vrt/vtime", "time"},
	"context":     {"verif.local/vrt/vcontext", "context"},
	"math/rand":   {"verif.local/vrt/vrand", "rand"},
}

func die(format string, a ...any) {
	fmt.Fprintf(os.Stderr, "vinstr: "+format+"\n", a...)
	os.Exit(2)
}

func main() {
	repo := flag.String("repo", "/repo", "repository directory")
	out := flag.String("out", "", "output directory")
	steps := flag.Bool("steps", true, "insert statement points in the pokertable packages")
	flag.Parse()
	if *out == "" {
		die("missing -out")
	}
	cfg := &packages.Config{
		Mode:       packages.NeedName | packages.NeedFiles | packages.NeedCompiledGoFiles | packages.NeedSyntax | packages.NeedTypes | packages.NeedTypesInfo | packages.NeedImports | packages.NeedDeps | packages.NeedModule,
		Dir:        *repo,
		BuildFlags: []string{"-tags=verif"},
		Env:        append(os.Environ(), "GOFLAGS=-mod=mod", "GOPROXY=off", "GOSUMDB=off", "GOTOOLCHAIN=local"),
	}
	pkgs, err := packages.Load(cfg, "./...", "github.com/weedbox/syncsaga", "github.com/weedbox/timebank")
	if err != nil {
		die("load: %v", err)
	}
	nerr := 0
	for _, p := range pkgs {
		for _, e := range p.Errors {
			fmt.Fprintf(os.Stderr, "vinstr: %s: %v\n", p.PkgPath, e)
			nerr++
		}
	}
	if nerr > 0 {
		die("the repository does not type-check")
	}
	for _, p := range pkgs {
		var dst string
		withSteps := false
		switch {
		case p.PkgPath == "github.com/weedbox/syncsaga":
			dst = filepath.Join(*out, "syncsaga")
		case p.PkgPath == "github.com/weedbox/timebank":
			dst = filepath.Join(*out, "timebank")
		case p.PkgPath == "github.com/weedbox/pokertable/testcases":
			continue
		case p.PkgPath == "github.com/weedbox/pokertable":
			dst = filepath.Join(*out, "pokertable")
			withSteps = *steps
		case strings.HasPrefix(p.PkgPath, "github.com/weedbox/pokertable/"):
			dst = filepath.Join(*out, "pokertable", strings.TrimPrefix(p.PkgPath, "github.com/weedbox/pokertable/"))
			withSteps = *steps
		default:
			continue
		}
		if err := os.MkdirAll(dst, 0o755); err != nil {
			die("%v", err)
		}
		for i, f := range p.Syntax {
			name := p.CompiledGoFiles[i]
			if strings.HasSuffix(name, "_test.go") {
				continue
			}
			in := &instr{fset: p.Fset, info: p.TypesInfo, file: f, withSteps: withSteps}
			in.run()
			var buf bytes.Buffer
			if err := (&printer.Config{Mode: printer.UseSpaces | printer.TabIndent, Tabwidth: 8}).Fprint(&buf, p.Fset, f); err != nil {
				die("print %s: %v", name, err)
			}
			if err := os.WriteFile(filepath.Join(dst, filepath.Base(name)), buf.Bytes(), 0o644); err != nil {
				die("%v", err)
			}
		}
		// module files
		if p.Module != nil && p.Module.GoMod != "" {
			var root string
			switch {
			case p.PkgPath == "github.com/weedbox/syncsaga", p.PkgPath == "github.com/weedbox/timebank", p.PkgPath == "github.com/weedbox/pokertable":
				root = dst
			}
			if root != "" {
				data, err := os.ReadFile(p.Module.GoMod)
				if err != nil {
					die("%v", err)
				}
				os.WriteFile(filepath.Join(root, "go.mod"), data, 0o644)
			}
		}
	}
}

type instr struct {
	fset      *token.FileSet
	info      *types.Info
	file      *ast.File
	withSteps bool
	n         int
	usedVrt   bool
	skipRecv  map[ast.Expr]bool
	loopWrap  map[*ast.BlockStmt]*wrapped
}

type wrapped struct {
	pre  []ast.Stmt
	loop ast.Stmt
}

func (in *instr) tmp(prefix string) *ast.Ident {
	in.n++
	return ast.NewIdent(fmt.Sprintf("vrt%s%d", prefix, in.n))
}

func (in *instr) vrtCall(fn string, args ...ast.Expr) *ast.CallExpr {
	in.usedVrt = true
	return &ast.CallExpr{Fun: &ast.SelectorExpr{X: ast.NewIdent(vrtName), Sel: ast.NewIdent(fn)}, Args: args}
}

func (in *instr) pos(n ast.Node) string { return in.fset.Position(n.Pos()).String() }

func define(lhs ast.Expr, rhs ast.Expr) *ast.AssignStmt {
	return &ast.AssignStmt{Lhs: []ast.Expr{lhs}, Tok: token.DEFINE, Rhs: []ast.Expr{rhs}}
}

func (in *instr) run() {
	f := in.file
	in.skipRecv = map[ast.Expr]bool{}
	in.loopWrap = map[*ast.BlockStmt]*wrapped{}
	// keep only the comments in front of the package clause (build constraints)
	var keep []*ast.CommentGroup
	for _, cg := range f.Comments {
		if cg.End() < f.Package {
			keep = append(keep, cg)
		}
	}
	f.Comments = keep
	f.Doc = nil
	ast.Inspect(f, func(n ast.Node) bool {
		switch x := n.(type) {
		case *ast.FuncDecl:
			x.Doc = nil
		case *ast.GenDecl:
			x.Doc = nil
		case *ast.Field:
			x.Doc, x.Comment = nil, nil
		case *ast.ValueSpec:
			x.Doc, x.Comment = nil, nil
		case *ast.TypeSpec:
			x.Doc, x.Comment = nil, nil
		case *ast.ImportSpec:
			x.Doc, x.Comment = nil, nil
		}
		return true
	})

	// 1. imports
	for _, is := range f.Imports {
		path, _ := strconv.Unquote(is.Path.Value)
		if sub, ok := importSubst[path]; ok {
			is.Path = &ast.BasicLit{Kind: token.STRING, Value: strconv.Quote(sub[0])}
			if is.Name == nil {
				is.Name = ast.NewIdent(sub[1])
			}
			is.EndPos = 0
		}
	}

	// 2. statement points (before any hook is inserted, so hooks are never split)
	if in.withSteps {
		in.insertSteps()
	}

	// 3. hooks
	pre := func(c *astutil.Cursor) bool {
		switch n := c.Node().(type) {
		case *ast.CommClause:
			switch s := n.Comm.(type) {
			case *ast.ExprStmt:
				in.skipRecv[ast.Unparen(s.X)] = true
			case *ast.AssignStmt:
				if len(s.Rhs) == 1 {
					in.skipRecv[ast.Unparen(s.Rhs[0])] = true
				}
			case *ast.SendStmt:
				die("%s: select with a send case is not supported", in.pos(n))
			}
		}
		return true
	}
	post := func(c *astutil.Cursor) bool {
		switch n := c.Node().(type) {
		case *ast.SendStmt:
			if _, ok := c.Parent().(*ast.CommClause); ok {
				return true
			}
			t := in.tmp("c")
			c.Replace(&ast.BlockStmt{List: []ast.Stmt{
				define(t, n.Chan),
				&ast.ExprStmt{X: in.vrtCall("BeforeSend", t)},
				&ast.SendStmt{Chan: t, Value: n.Value},
			}})
		case *ast.UnaryExpr:
			if n.Op != token.ARROW || in.skipRecv[n] {
				return true
			}
			two := false
			switch p := c.Parent().(type) {
			case *ast.AssignStmt:
				two = len(p.Lhs) == 2 && len(p.Rhs) == 1
			case *ast.ValueSpec:
				two = len(p.Names) == 2 && len(p.Values) == 1
			}
			if two {
				c.Replace(in.vrtCall("Recv2", n.X))
			} else {
				c.Replace(in.vrtCall("Recv", n.X))
			}
		case *ast.CallExpr:
			if id, ok := n.Fun.(*ast.Ident); ok && id.Name == "close" && len(n.Args) == 1 {
				if _, isBuiltin := in.info.Uses[id].(*types.Builtin); isBuiltin {
					c.Replace(in.vrtCall("Close", n.Args[0]))
				}
			}
		case *ast.GoStmt:
			c.Replace(in.rewriteGo(n))
		case *ast.SelectStmt:
			c.Replace(in.rewriteSelect(n))
		case *ast.RangeStmt:
			tv, ok := in.info.Types[n.X]
			if !ok {
				return true
			}
			switch tv.Type.Underlying().(type) {
			case *types.Chan:
				blk := in.rewriteRangeChan(n)
				c.Replace(blk)
			case *types.Map:
				blk := in.rewriteRangeMap(n)
				c.Replace(blk)
			}
		case *ast.LabeledStmt:
			if blk, ok := n.Stmt.(*ast.BlockStmt); ok {
				if w := in.loopWrap[blk]; w != nil {
					// keep the label on the loop itself
					list := append([]ast.Stmt{}, w.pre...)
					list = append(list, &ast.LabeledStmt{Label: n.Label, Stmt: w.loop})
					c.Replace(&ast.BlockStmt{List: list})
				}
			}
		}
		return true
	}
	astutil.Apply(f, pre, post)

	if in.usedVrt {
		astutil.AddNamedImport(in.fset, f, vrtName, "verif.local/vrt")
	}
}

func (in *instr) stepStmt() ast.Stmt { return &ast.ExprStmt{X: in.vrtCall("Step")} }

func (in *instr) withStepsList(list []ast.Stmt) []ast.Stmt {
	if len(list) == 0 {
		return list
	}
	out := make([]ast.Stmt, 0, 2*len(list))
	for _, s := range list {
		switch s.(type) {
		case *ast.EmptyStmt:
			out = append(out, s)
			continue
		}
		out = append(out, in.stepStmt(), s)
	}
	return out
}

func (in *instr) insertSteps() {
	clauseBlocks := map[*ast.BlockStmt]bool{}
	ast.Inspect(in.file, func(n ast.Node) bool {
		switch x := n.(type) {
		case *ast.SwitchStmt:
			clauseBlocks[x.Body] = true
		case *ast.TypeSwitchStmt:
			clauseBlocks[x.Body] = true
		case *ast.SelectStmt:
			clauseBlocks[x.Body] = true
		}
		return true
	})
	ast.Inspect(in.file, func(n ast.Node) bool {
		switch x := n.(type) {
		case *ast.BlockStmt:
			if clauseBlocks[x] {
				return true
			}
			x.List = in.withStepsList(x.List)
		case *ast.CaseClause:
			x.Body = in.withStepsList(x.Body)
		case *ast.CommClause:
			x.Body = in.withStepsList(x.Body)
		}
		return true
	})
}

func (in *instr) isConst(e ast.Expr) bool {
	if tv, ok := in.info.Types[e]; ok {
		if tv.Value != nil || tv.IsNil() {
			return true
		}
	}
	return false
}

func (in *instr) rewriteGo(g *ast.GoStmt) ast.Stmt {
	call := g.Call
	var pre []ast.Stmt
	fun := call.Fun
	switch fun.(type) {
	case *ast.FuncLit:
		// evaluated in place inside the closure; a literal has no side effects
	default:
		if id, ok := fun.(*ast.Ident); ok {
			if _, isFunc := in.info.Uses[id].(*types.Func); isFunc {
				break // plain function name
			}
			if _, isBuiltin := in.info.Uses[id].(*types.Builtin); isBuiltin {
				break
			}
		}
		t := in.tmp("f")
		pre = append(pre, define(t, fun))
		fun = t
	}
	args := make([]ast.Expr, len(call.Args))
	for i, a := range call.Args {
		if in.isConst(a) {
			args[i] = a
			continue
		}
		if _, isLit := a.(*ast.FuncLit); isLit {
			args[i] = a
			continue
		}
		t := in.tmp("a")
		pre = append(pre, define(t, a))
		args[i] = t
	}
	inner := &ast.CallExpr{Fun: fun, Args: args, Ellipsis: call.Ellipsis}
	if _, isLit := fun.(*ast.FuncLit); isLit {
		inner.Fun = &ast.ParenExpr{X: fun}
	}
	spawn := &ast.ExprStmt{X: in.vrtCall("Go", &ast.FuncLit{
		Type: &ast.FuncType{Params: &ast.FieldList{}},
		Body: &ast.BlockStmt{List: []ast.Stmt{&ast.ExprStmt{X: inner}}},
	})}
	return &ast.BlockStmt{List: append(pre, spawn)}
}

func (in *instr) rewriteSelect(s *ast.SelectStmt) ast.Stmt {
	var pre []ast.Stmt
	var chans []ast.Expr
	hasDefault := false
	sw := &ast.SwitchStmt{Body: &ast.BlockStmt{}}
	idx := 0
	for _, cl := range s.Body.List {
		cc := cl.(*ast.CommClause)
		if cc.Comm == nil {
			hasDefault = true
			sw.Body.List = append(sw.Body.List, &ast.CaseClause{
				List: []ast.Expr{&ast.UnaryExpr{Op: token.SUB, X: &ast.BasicLit{Kind: token.INT, Value: "1"}}},
				Body: cc.Body,
			})
			continue
		}
		var recv *ast.UnaryExpr
		switch st := cc.Comm.(type) {
		case *ast.ExprStmt:
			recv, _ = ast.Unparen(st.X).(*ast.UnaryExpr)
		case *ast.AssignStmt:
			recv, _ = ast.Unparen(st.Rhs[0]).(*ast.UnaryExpr)
		}
		if recv == nil || recv.Op != token.ARROW {
			die("%s: unsupported select case", in.pos(cc))
		}
		t := in.tmp("c")
		pre = append(pre, define(t, recv.X))
		recv.X = t
		chans = append(chans, t)
		body := append([]ast.Stmt{cc.Comm}, cc.Body...)
		sw.Body.List = append(sw.Body.List, &ast.CaseClause{
			List: []ast.Expr{&ast.BasicLit{Kind: token.INT, Value: strconv.Itoa(idx)}},
			Body: body,
		})
		idx++
	}
	hd := "false"
	if hasDefault {
		hd = "true"
	}
	sw.Tag = in.vrtCall("Select", append([]ast.Expr{ast.NewIdent(hd)}, chans...)...)
	blk := &ast.BlockStmt{List: append(pre, sw)}
	in.loopWrap[blk] = &wrapped{pre: pre, loop: sw}
	return blk
}

func isBlank(e ast.Expr) bool {
	if e == nil {
		return true
	}
	id, ok := e.(*ast.Ident)
	return ok && id.Name == "_"
}

func (in *instr) rewriteRangeChan(r *ast.RangeStmt) *ast.BlockStmt {
	c := in.tmp("c")
	okv := in.tmp("ok")
	pre := []ast.Stmt{define(c, r.X)}
	var head []ast.Stmt
	recv := in.vrtCall("Recv2", c)
	if isBlank(r.Key) {
		head = append(head, &ast.AssignStmt{Lhs: []ast.Expr{ast.NewIdent("_"), okv}, Tok: token.DEFINE, Rhs: []ast.Expr{recv}})
	} else if r.Tok == token.DEFINE {
		head = append(head, &ast.AssignStmt{Lhs: []ast.Expr{r.Key, okv}, Tok: token.DEFINE, Rhs: []ast.Expr{recv}})
	} else {
		tv := in.tmp("v")
		head = append(head,
			&ast.AssignStmt{Lhs: []ast.Expr{tv, okv}, Tok: token.DEFINE, Rhs: []ast.Expr{recv}},
			&ast.AssignStmt{Lhs: []ast.Expr{r.Key}, Tok: token.ASSIGN, Rhs: []ast.Expr{tv}},
		)
	}
	head = append(head, &ast.IfStmt{
		Cond: &ast.UnaryExpr{Op: token.NOT, X: okv},
		Body: &ast.BlockStmt{List: []ast.Stmt{&ast.BranchStmt{Tok: token.BREAK}}},
	})
	loop := &ast.ForStmt{Body: &ast.BlockStmt{List: append(head, r.Body.List...)}}
	blk := &ast.BlockStmt{List: append(pre, loop)}
	in.loopWrap[blk] = &wrapped{pre: pre, loop: loop}
	return blk
}

func (in *instr) rewriteRangeMap(r *ast.RangeStmt) *ast.BlockStmt {
	m := in.tmp("m")
	okv := in.tmp("ok")
	pre := []ast.Stmt{define(m, r.X)}
	var key ast.Expr
	var head []ast.Stmt
	loopTok := token.DEFINE
	if isBlank(r.Key) {
		key = in.tmp("k")
	} else if r.Tok == token.DEFINE {
		key = r.Key
	} else {
		k := in.tmp("k")
		head = append(head, &ast.AssignStmt{Lhs: []ast.Expr{r.Key}, Tok: token.ASSIGN, Rhs: []ast.Expr{k}})
		key = k
	}
	var keyRef ast.Expr = key
	if r.Tok != token.DEFINE && !isBlank(r.Key) {
		keyRef = key
	}
	idx := &ast.IndexExpr{X: m, Index: keyRef}
	if isBlank(r.Value) {
		head = append(head, &ast.AssignStmt{Lhs: []ast.Expr{ast.NewIdent("_"), okv}, Tok: token.DEFINE, Rhs: []ast.Expr{idx}})
	} else if r.Tok == token.DEFINE {
		head = append(head, &ast.AssignStmt{Lhs: []ast.Expr{r.Value, okv}, Tok: token.DEFINE, Rhs: []ast.Expr{idx}})
	} else {
		tv := in.tmp("v")
		head = append(head,
			&ast.AssignStmt{Lhs: []ast.Expr{tv, okv}, Tok: token.DEFINE, Rhs: []ast.Expr{idx}},
			&ast.AssignStmt{Lhs: []ast.Expr{r.Value}, Tok: token.ASSIGN, Rhs: []ast.Expr{tv}},
		)
	}
	head = append(head, &ast.IfStmt{
		Cond: &ast.UnaryExpr{Op: token.NOT, X: okv},
		Body: &ast.BlockStmt{List: []ast.Stmt{&ast.BranchStmt{Tok: token.CONTINUE}}},
	})
	loop := &ast.RangeStmt{
		Key:   ast.NewIdent("_"),
		Value: key,
		Tok:   loopTok,
		X:     in.vrtCall("Keys", m),
		Body:  &ast.BlockStmt{List: append(head, r.Body.List...)},
	}
	blk := &ast.BlockStmt{List: append(pre, loop)}
	in.loopWrap[blk] = &wrapped{pre: pre, loop: loop}
	return blk
}
