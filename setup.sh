#!/bin/bash
# Builds the instrumenter and primes the Go build cache (offline).
set -e
VERIF="$(cd "$(dirname "$0")" && pwd)"
export GOFLAGS=-mod=mod GOPROXY=off GOSUMDB=off GOTOOLCHAIN=local
mkdir -p "$VERIF/bin" "$VERIF/evidence"
(cd "$VERIF/vinstr" && go build -o "$VERIF/bin/vinstr" .)
(cd "$VERIF/vrt" && go build ./...)
# prime the cache: one full instrument+build of the harness
"$VERIF/check.sh" C09 quick -suite gate/none/n1 -evidence /dev/null >/dev/null 2>&1 || true
echo setup ok
