#!/usr/bin/env python3
"""Regenerates /verif/MANIFEST.json from the table below (claimed checks) and properties.jsonl."""
import json, os
V = os.path.dirname(os.path.dirname(os.path.abspath(__file__)))
props = [json.loads(l) for l in open(os.path.join(V, "properties.jsonl"))]
claimed = json.load(open(os.path.join(V, "tools", "claims.json")))
checks, na = [], []
for p in props:
    c = claimed.get(p["id"])
    if not c or c.get("na"):
        na.append({"property_id": p["id"], "reason": (c or {}).get("na", "check not built yet in this session; no claim is made")})
        continue
    checks.append({
        "property_id": p["id"],
        "quick_cmd": "./check.sh %s quick" % p["id"],
        "thorough_cmd": "./check.sh %s thorough" % p["id"],
        "evidence_file": "/verif/evidence/%s.json" % p["id"],
        "replay_cmd_template": "./check.sh replay {path}",
        "engine": c.get("engine", "vcheck"),
        "level_claimed": {"category": c.get("category", "model_checking"), "text": c["text"], "design_ref": c.get("design_ref", "DESIGN.md §3 " + p["id"])},
        "level_note": c["note"],
        "technique": c["technique"],
    })
m = {
    "version": 1,
    "setup_cmd": "./setup.sh",
    "hooks": {
        "guard": "verif",
        "enable": "go build -tags verif (check.sh instruments /repo's working tree with the tag on and builds the harness against the instrumented copy)",
        "baseline_off_cmd": "cd /repo && GOFLAGS=-mod=mod GOPROXY=off GOSUMDB=off go test -json -vet=off -count=1 -timeout 25m ./...",
        "source_commits": json.load(open(os.path.join(V, "tools", "hook_commits.json"))),
        "add_only": True,
    },
    "engines": [
        {"name": "vcheck", "path": "/verif/harness", "serves_properties": [c["property_id"] for c in checks],
         "kind_free_text": "hand-written stateless model checker for Go: source instrumenter (vinstr) + controlled runtime (vrt: cooperative scheduler, virtual clock, choice-point randomness) + deviation-bounded DFS / explicit-state BFS over the real implementation"},
    ],
    "checks": checks,
    "not_applicable": na,
    "notes": "All checks rebuild from /repo's current working tree (check.sh). Known findings: /verif/known_findings.json.",
}
json.dump(m, open(os.path.join(V, "MANIFEST.json"), "w"), indent=1)
print("claimed:", [c["property_id"] for c in checks])
