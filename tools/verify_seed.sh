#!/bin/bash
# usage: tools/verify_seed.sh <Cxx> [property-to-check ...]
# Takes the deliverables a sub-agent left in /tmp/wt-<Cxx>/_seed, stores them under /verif/seeded/<Cxx>/,
# and confirms on a fresh scratch copy of /repo HEAD: patch applies, builds, existing tests pass with it,
# the demonstration fails with it and passes without it. Then runs the named checks against the patched copy.
set -u
ID="$1"; shift
WT=/tmp/wt-$ID
DST=/verif/seeded/$ID
if [ "${ROUND:-1}" = "2" ]; then WT=/tmp/w2-$ID; DST=/verif/seeded/$ID-r2; fi
if [ "${ROUND:-1}" = "3" ]; then WT=/tmp/w3-$ID; DST=/verif/seeded/$ID-r3; fi
if [ "${ROUND:-1}" = "4" ]; then WT=/tmp/w4-$ID; DST=/verif/seeded/$ID-r4; fi
if [ "${ROUND:-1}" -ge 5 ]; then WT=/tmp/w${ROUND}-$ID; DST=/verif/seeded/$ID-r${ROUND}; fi
SRC=$WT/_seed
export GOFLAGS=-mod=mod GOPROXY=off GOSUMDB=off GOTOOLCHAIN=local
mkdir -p "$DST"
cp "$SRC"/* "$DST"/ 2>/dev/null
W=$(mktemp -d /tmp/vs-XXXXXX)
trap 'rm -rf "$W"' EXIT
git -C /repo archive HEAD | tar -x -C "$W"
cd "$W" && git init -q && git add -A && git commit -qm base
DEMO=$(ls "$DST"/*_test.go | head -1)
DEMOPKG=$(python3 -c "import json;m=json.load(open('$DST/meta.json'));print(m.get('demo_cmd',''))")
# place the demo where the agent had it
REL=$(cd $WT && git status --porcelain | grep '_test.go' | awk '{print $2}' | head -1)
[ -z "$REL" ] && REL=$(basename "$DEMO")
cp "$DEMO" "$W/$REL"
PKG="./$(dirname "$REL")/"
RUNPAT=$(grep -o 'func Test[A-Za-z0-9_]*' "$DEMO" | sed 's/func //' | paste -sd'|')
echo "demo: $REL pkg=$PKG tests=$RUNPAT"
go test -vet=off -count=1 -run "$RUNPAT" "$PKG" >/tmp/vs_${ID}_without.log 2>&1; WITHOUT=$?
if [ "${ROUND:-1}" -ge 3 ] && [ $WITHOUT = 0 ]; then # race demonstrations: must pass every time without the change
  for k in 2 3; do go test -vet=off -count=1 -run "$RUNPAT" "$PKG" >/tmp/vs_${ID}_without.log 2>&1 || WITHOUT=$?; done
fi
git apply --whitespace=nowarn "$DST/patch.diff" || { echo "PATCH DOES NOT APPLY to current HEAD"; exit 3; }
go build ./... || { echo "DOES NOT BUILD"; exit 3; }
go test -vet=off -count=1 -run "$RUNPAT" "$PKG" >/tmp/vs_${ID}_with.log 2>&1; WITH=$?
if [ "${ROUND:-1}" -ge 3 ] && [ $WITH = 0 ]; then # race demonstrations may need more than one run to fail
  for k in 2 3; do go test -vet=off -count=1 -run "$RUNPAT" "$PKG" >/tmp/vs_${ID}_with.log 2>&1 || { WITH=$?; break; }; done
fi
mv "$W/$REL" /tmp/vs_${ID}_demo_hold.go
# ./actor/ has a rare baseline panic ("negative WaitGroup counter" / "send on closed channel"): a real failure
# shows as a "--- FAIL" line; retry up to 3 times for a clean pass
T1=1
for try in 1 2 3; do
  go test -vet=off -count=1 ./seat_manager/ ./open_game_manager/ ./actor/ >/tmp/vs_${ID}_tests.log 2>&1 && { T1=0; break; }
  grep -q -e '--- FAIL' /tmp/vs_${ID}_tests.log && { T1=2; break; }
done
# the testcases package is flaky at baseline ("Fail in goroutine after <Test> has completed" panics): a real
# failure shows as a "--- FAIL" line; retry up to 3 times for a clean pass
T2=1
for try in 1 2 3; do
  go test -vet=off -count=1 -run 'TestTableGame_Flop_Settlement|TestTableGame_Two_People|TestTableGame_Turn_Settlement' ./testcases/ >/tmp/vs_${ID}_tc.log 2>&1 && { T2=0; break; }
  grep -q -e '--- FAIL' /tmp/vs_${ID}_tc.log && { T2=2; break; }
done
cat /tmp/vs_${ID}_tc.log >>/tmp/vs_${ID}_tests.log
echo "demo without patch: exit $WITHOUT (want 0); with patch: exit $WITH (want !=0); existing tests with patch: $T1/$T2 (want 0/0)"
{
  echo "verified on $(date -u +%Y-%m-%dT%H:%MZ) against /repo $(git -C /repo log --format=%h -1) by tools/verify_seed.sh"
  echo "demo ($REL, tests $RUNPAT): without patch exit $WITHOUT, with patch exit $WITH"
  echo "existing tests with patch: seat_manager+open_game_manager+actor exit $T1; testcases (3 stable tests, flaky-panic retried) exit $T2"
} > "$DST/verified.txt"
cd /verif
for P in "$@"; do
  echo "--- check $P against the patched copy"
  VERIF_REPO="$W" /verif/check.sh "$P" quick -evidence /dev/null 2>&1 | grep -E "^VIOLATION|clause=|^C[0-9]+ |KNOWN|ERROR" | sed 's/replay=.*//; s/suite=[^ ]* //' | sort | uniq -c | sort -rn | head -6 | tee -a "$DST/verified.txt.tmp"
  { echo "check $P quick against the patched copy:"; cat "$DST/verified.txt.tmp"; } >> "$DST/verified.txt"; rm -f "$DST/verified.txt.tmp"
done
