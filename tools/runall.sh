#!/bin/bash
# runs every claimed check of MANIFEST.json (quick|thorough) sequentially; prints one line per check
TIER="${1:-quick}"
cd "$(dirname "$0")/.."
for id in $(python3 -c "import json;print(' '.join(c['property_id'] for c in json.load(open('MANIFEST.json'))['checks']))"); do
  t0=$(date +%s)
  out=$(./check.sh $id $TIER 2>&1); rc=$?
  echo "$id rc=$rc $(( $(date +%s)-t0 ))s $(echo "$out" | grep -c '^KNOWN-FINDING') known | $(echo "$out" | tail -1 | cut -c1-160)"
  echo "$out" | grep -E "^VIOLATION|HARNESS-ERROR" | head -3
done
