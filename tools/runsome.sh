#!/bin/bash
# usage: tools/runsome.sh <tier> <budget-seconds> <id>...   — like runall.sh for the listed checks with an explicit budget
TIER="$1"; BUD="$2"; shift 2
cd "$(dirname "$0")/.."
for id in "$@"; do
  t0=$(date +%s)
  out=$(./check.sh $id $TIER -budget $BUD -evidence /dev/null 2>&1); rc=$?
  echo "$id rc=$rc $(( $(date +%s)-t0 ))s $(echo "$out" | grep -c '^KNOWN-FINDING') known | $(echo "$out" | tail -1 | cut -c1-160)"
  echo "$out" | grep -E -A3 "^VIOLATION|HARNESS-ERROR" | head -12
done
