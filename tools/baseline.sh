#!/bin/bash
# usage: tools/baseline.sh [dir]   — runs the repository's own tests (the 51 stable ones of /root/.vp/BASELINE.json) in dir (default /repo)
# and prints which stable tests did not pass. Exit 0 iff all stable tests passed.
export GOFLAGS=-mod=mod GOPROXY=off GOSUMDB=off GOTOOLCHAIN=local
D=${1:-/repo}
OUT=$(mktemp /tmp/baseline-XXXXXX.json)
(cd "$D" && go test -json -vet=off -count=1 -timeout 25m ./... > "$OUT" 2>/dev/null)
python3 - "$OUT" <<'PY'
import json,sys
stable=json.load(open('/root/.vp/BASELINE.json'))['stable_pass']
res={}
for l in open(sys.argv[1]):
    try: e=json.loads(l)
    except: continue
    if e.get('Test') and e.get('Action') in ('pass','fail','skip'):
        res[e['Package']+'::'+e['Test']]=e['Action']
bad=[t for t in stable if res.get(t)!='pass']
print(f"stable tests passed: {len(stable)-len(bad)}/{len(stable)}")
for t in bad: print("  NOT PASSED:", t, res.get(t))
sys.exit(1 if bad else 0)
PY
RC=$?
rm -f "$OUT"
exit $RC
