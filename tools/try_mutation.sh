#!/bin/bash
# usage: tools/try_mutation.sh <patch.diff> <property> [tier] [extra flags]
# applies the patch to a scratch copy of /repo (never to /repo), runs the check against it, removes the copy.
set -u
PATCH="$1"; ID="$2"; TIER="${3:-quick}"; shift; shift; shift || true
W=$(mktemp -d /tmp/mut-XXXXXX)
trap 'rm -rf "$W"' EXIT
git -C /repo archive HEAD | tar -x -C "$W"
(cd "$W" && git init -q && git apply --whitespace=nowarn "$PATCH") || { echo "patch does not apply"; exit 3; }
VERIF_REPO="$W" /verif/check.sh "$ID" "$TIER" -evidence /dev/null "$@" 2>&1 | grep -E "^VIOLATION|clause=|^C[0-9]+ |KNOWN|ERROR" | sed 's/replay=.*//' | sort | uniq -c | sort -rn | head -8
